"""C25  Renaming, duplicating and removing items keeps the scheduler graph consistent.

SEQ / explicit-state BFS.  A state is (project, history): the generated project (vf/batchgen.py x call-site declaration
style of vf/batchgen2.py) processed by the real Scheduler (full parse) with the transformations of the history, in order:

    dep            DependencyTransformation(suffix='_x')                       (kernels and their modules are renamed,
    dep+modsuffix  DependencyTransformation(suffix='_x', module_suffix='_mod')  the driver keeps its name, calls re-pointed)
    wrap           ModuleWrapTransformation(module_suffix='_mod')
    dup k          DuplicateKernel(k, '_dup')          k = every kernel of the project, named by its *current* name
    dup+subgraph k DuplicateKernel(k, '_dup', duplicate_subgraph=True)
    rem k          RemoveKernel(k)

Every transformation is followed by a probe pass (a logging Transformation over the procedure items) and a
FileWriteTransformation into a fresh directory.  BFS by history length (<= 2 quick, <= 3 thorough); a state that violates
the property is reported and not expanded.  The *output program* of a state is: the written files, plus every original
file that was not replaced by a written one (the CMake plan semantics: a processed original is removed from the target).

Reference model (no Loki code): the generator's call structure, transformed by the documented effect of each step --
renames and wraps keep it; `dup k` adds, after every call to k in the graph, a call to one copy of k (with
duplicate_subgraph the copy calls copies of k's callees, recursively); `rem k` deletes the calls to k.  The model carries
no naming rule: the *current names* of the units are read from the output program by walking it in parallel with the
model from the driver (callees are matched by position and by the marker `<name>` every generated procedure prints).

Invariants checked after every step (first failure is the verdict of the state):
  step-raised            the transformation / probe / write raises (NotImplementedError and "not supported" are refusals)
  cache-key              cache key == item.name for every entry of the item cache
  item-ir-name           the IR node of every procedure item in the graph carries the item's local name; cache[name] is the item
  call-structure         the output program, walked from the driver, has exactly the calls of the reference model (a missing
                         duplicate, a call left in place after a removal, two reference units resolving to one output unit
                         = a stale or wrong copy)
  graph-items            procedure items of the graph == units reachable in the output program, under their current names
  unresolved-reference   every CALL / USE (module and ONLY names) / INTERFACE body in the written files resolves to a unit
                         defined in the output program
  probe                  the probe visits exactly the procedure items of the graph, each once
Final check of the state: all written files + the originals they need + the harness driver (a PROGRAM that never goes
through Loki) are compiled and linked by gfortran as one build; histories without `rem` (renames, wraps, duplicates
preserve meaning) must print exactly what the reference model prints (= the original output, plus the copies' markers).
The harness-side Fortran reader is bound to gfortran: "reader finds an unresolved reference" and "gfortran links and runs"
together are a HARNESS error, never a verdict.

Signature: failure class + the history reduced to step kinds + the project attributes of the shrunk core.
"""
import collections
import hashlib
import json
import os
import re
import shutil
import tempfile
from pathlib import Path

from vf import batchgen as bg
from vf import batchgen2 as b2
from vf.explore import shrink

PROPERTY = 'C25'
LEVEL = 'model_checking'
META = dict(
    engine='seq',
    technique='explicit-state BFS over transformation histories on the real Scheduler (each state rebuilt by replay), lock-step '
              'reference model of the call structure, harness-side reading of the written Fortran, gfortran link + run per state',
    level_text='histories of <=2 (quick) / <=3 (thorough) steps from {dependency-suffixing +-module suffix, module wrap, duplicate k '
               '+-subgraph, remove k} on call DAGs of <=3 procedures x layouts x import styles x call-site declaration styles (full '
               'depth on ONLY-imports in 4 layouts, depth 1 elsewhere; see bound.depth_rule); cache keys, graph items, call structure, '
               'reference resolution, probe visits after every step; link+run per state',
    level_note='runs on the implementation; the reference model predicts structure only, names are read from the written '
               'sources; the Fortran reader is cross-checked against gfortran on every state',
)

_CFG = {}
MODE = 'idem'


# ----------------------------------------------------------------------------- reference model
class Model:
    def __init__(self, project):
        self.nodes = {}
        for pr in project.procs:
            self.nodes[pr.idx] = dict(origin=pr.idx, name=pr.name, module=pr.module, calls=list(pr.calls), copy_of=None)
        self.root = 0
        self.next = len(project.procs)
        self.markers = [pr.name for pr in project.procs]
        self.precise = True
        self.dups_done = set()

    def reachable(self):
        seen, order = set(), []

        def visit(u):
            if u in seen:
                return
            seen.add(u)
            order.append(u)
            for v in self.nodes[u]['calls']:
                visit(v)
        visit(self.root)
        return order

    def by_name(self, name):
        return [u for u, nd in self.nodes.items() if nd['name'] == name]

    def apply(self, step):
        """step with the kernel given by its current name"""
        kind = step[0]
        if kind in ('dep', 'wrap'):
            return
        kname = step[1]
        R = self.reachable()
        if kind == 'rem':
            for u in R:
                nd = self.nodes[u]
                nd['calls'] = [v for v in nd['calls'] if self.nodes[v]['name'] != kname]
            return
        sub = bool(step[2])
        if kname in self.dups_done:
            self.precise = False       # duplicating the same kernel twice: the documentation says nothing about it
        self.dups_done.add(kname)
        inR = set(R)

        def copy_of(v, force):
            nd = self.nodes[v]
            newname = nd['name'] + b2.DUPSUFFIX
            existing = [w for w in self.by_name(newname) if self.nodes[w]['origin'] == nd['origin']]
            if existing:
                w = existing[0]
            else:
                w = self.next
                self.next += 1
                self.nodes[w] = dict(origin=nd['origin'], name=newname, module=None, calls=list(nd['calls']), copy_of=v)
            if sub:
                deps = {}
                for x in nd['calls']:
                    if x == v:
                        continue
                    cx = copy_of(x, True)
                    deps[self.nodes[x]['name'] + b2.DUPSUFFIX] = cx
                wn = self.nodes[w]
                wn['calls'] = [deps.get(self.nodes[c]['name'] + b2.DUPSUFFIX, c) for c in wn['calls']]
            return w
        for u in R:
            nd = self.nodes[u]
            if not any(self.nodes[v]['name'] == kname for v in nd['calls']):
                continue
            new_calls = []
            for v in nd['calls']:
                new_calls.append(v)
                if self.nodes[v]['name'] == kname:
                    new_calls.append(copy_of(v, False))
            nd['calls'] = new_calls

    def simulate(self):
        lines, total = [], [0]

        def run(u):
            nd = self.nodes[u]
            lines.append(f'<{self.markers[nd["origin"]]}>')
            total[0] += 10 ** nd['origin']
            for v in nd['calls']:
                run(v)
        run(self.root)
        return lines + [str(total[0])]


def alphabet(n):
    steps = [['dep', None], ['dep', '_mod'], ['wrap']]
    for k in range(1, n):
        steps += [['dup', k, False], ['dup', k, True], ['rem', k]]
    return steps


# ----------------------------------------------------------------------------- implementation side
def make_probe(log):
    from loki.batch import Transformation

    def ts(self, routine, **kw):
        it = kw.get('item')
        log.append((it.name.lower() if it is not None else None, str(routine.name).lower()))
    return type('Probe', (Transformation,), dict(transform_subroutine=ts))()


def refusal(e):
    c = e.__cause__ or e
    return isinstance(c, NotImplementedError) or 'not supported' in str(c).lower()


def stem(p):
    return os.path.basename(p).split('.')[0]


def output_program(project, written):
    """written: {file name: text}.  -> ({name: text} of the output program, set of names that are written files)"""
    files = {}
    wstems = collections.defaultdict(list)
    for w, t in written.items():
        wstems[stem(w)].append(w)
    for f, t in project.files.items():
        repl = [w for w in wstems.get(stem(f), []) if b2.markers_of(written[w]) & b2.markers_of(t)]
        if not repl:
            files['orig/' + f] = t
    for w, t in written.items():
        files['out/' + w] = t
    return files, {'out/' + w for w in written}


def walk_parallel(model, prog, root_key):
    """Walk the reference model and the output program in parallel from the driver.
    -> (names: model uid -> first prog key it is reached as, reached prog keys, None) | (None, None, (failclass, detail))
    One reference unit may be reached as several output units (a module procedure is duplicated by cloning its whole
    module, so module siblings come along: their copies are further instances of the same reference unit); two *distinct*
    reference units resolving to one output unit is a stale / wrong copy."""
    names, back, seen = {}, {}, set()
    if root_key not in prog.subs:
        return None, None, ('call-structure driver-missing', f'the driver {b2.item_name(root_key)} is not defined in the output program')
    bad = []

    def visit(u, key):
        if bad or (u, key) in seen:
            return
        seen.add((u, key))
        if key in back and back[key] != u:
            a, b = model.nodes[back[key]], model.nodes[u]
            kind = 'copy-and-original' if a['origin'] == b['origin'] else 'different-units'
            bad.append((f'call-structure two-units-one-name {kind}',
                        f'two distinct units of the reference ({a["name"]} and {b["name"]}, marker <{model.markers[b["origin"]]}>) '
                        f'resolve to the same unit {b2.item_name(key)} of the output program: a stale or wrong copy is called'))
            return
        back[key] = u
        names.setdefault(u, key)
        sub = prog.subs[key]
        want = model.nodes[u]['calls']
        got = [prog.resolve(sub, c) for c in sub.calls if '%' not in c]
        wm = [model.markers[model.nodes[v]['origin']] for v in want]
        gm = [(prog.subs[k].markers[0] if k in prog.subs and prog.subs[k].markers else '?' + k[1]) for k in got]
        if wm != gm:
            what = 'call-missing' if len(gm) < len(wm) else ('call-extra' if len(gm) > len(wm) else 'call-to-other-unit')
            bad.append((f'call-structure {what}',
                        f'{b2.item_name(key)} ({sub.file}) calls {[b2.item_name(k) for k in got]} (markers {gm}); the reference has '
                        f'calls to {[model.nodes[v]["name"] for v in want]} (markers {wm})'))
            return
        for v, k in zip(want, got):
            visit(v, k)
    visit(model.root, root_key)
    if bad:
        return None, None, bad[0]
    return names, [k for _, k in sorted(seen, key=lambda x: repr(x))], None


def build_and_run(prog, files, needed, driver_text):
    order = b2.compile_order(prog, needed)
    src = [(f, files[f]) for f in order] + [('zz_main.f90', driver_text)]
    text = ''.join(t for _, t in src)
    key = hashlib.sha1(text.encode()).hexdigest()
    cdir = Path(_CFG.get('scratch') or tempfile.gettempdir()) / 'gfcache'
    cfile = cdir / key
    if _CFG.get('scratch'):
        try:
            return json.loads(cfile.read_text()), True
        except (OSError, ValueError):
            pass
    r = b2.link_and_run(src, _CFG.get('scratch'))
    r = dict(ok=r['ok'], stage=r['stage'], out=r['out'], err=r['err'][-1500:])
    if _CFG.get('scratch'):
        try:
            cdir.mkdir(exist_ok=True)
            tmp = cdir / f'.{key}.{os.getpid()}'
            tmp.write_text(json.dumps(r))
            tmp.replace(cfile)
        except OSError:
            pass
    return r, False


def all_needed(prog, root_key, written_names):
    """Every written file (the output must compile and link *together*) + whatever they and the driver need from the originals"""
    files = list(prog.files_needed(root_key))
    for k, sub in prog.subs.items():
        if sub.file in written_names:
            for f in prog.files_needed(k):
                if f not in files:
                    files.append(f)
    for m, mod in prog.modules.items():
        if mod.file in written_names:
            for mm, _ in mod.uses:
                if mm in prog.modules and prog.modules[mm].file not in files:
                    files.append(prog.modules[mm].file)
    for f in sorted(written_names):       # also files all of whose units are second definitions of something
        if f not in files:
            files.append(f)
    return files


class Runner:
    """One project on one live Scheduler; `advance(step)` applies a transformation (None: the initial state), runs the probe and
    the file write, judges every per-step invariant and leaves the output program in `self.final`; `finish()` links and runs it."""

    def __init__(self, pspec, base=None):
        self.project = b2.build_project2(pspec)
        self.d = Path(tempfile.mkdtemp(prefix='c25_', dir=base or ('/dev/shm' if Path('/dev/shm').is_dir() else None)))
        self.stats = collections.Counter()
        self.hist = []
        self.i = -1
        self.final = None
        self.sched = None
        self.model = Model(self.project)
        P0 = self.project.procs[0]
        self.root_key = (P0.module, P0.name)

    def close(self):
        shutil.rmtree(self.d, ignore_errors=True)

    def fail(self, fc, detail):
        return dict(kind='fail', fc=fc, detail=f'[after step {self.i} of {json.dumps(self.hist)}] {detail}', step=self.i,
                    stats=dict(self.stats))

    def advance(self, step):
        """-> None (the state holds so far) | result dict (verdict reached)"""
        from loki.batch import Scheduler
        from loki.batch.item import ProcedureItem
        from loki.transformations.build_system import FileWriteTransformation
        project, model, stats = self.project, self.model, self.stats
        self.i += 1
        i = self.i
        if step is None:
            src = self.d / 'src'
            project.write(src)
            P0 = project.procs[0]
            config = dict(default=dict(role='kernel', expand=True, strict=True, mode=MODE), routines={P0.name: dict(role='driver')})
            try:
                self.sched = Scheduler(paths=[src], config=config, seed_routines=[P0.name], full_parse=True,
                                       output_dir=str(self.d / 'out0'))
            except Exception as e:   # pylint: disable=broad-except
                return self.fail('step-raised scheduler-construction', f'{type(e).__name__}: {e}')
        else:
            self.hist.append(list(step))
            step = list(step)
            if step[0] in ('dup', 'rem'):
                step[1] = model.nodes[step[1]]['name']
            try:
                self.sched.process(b2.make_step(step))
            except Exception as e:   # pylint: disable=broad-except
                if refusal(e):
                    return dict(kind='refusal', step=i, stats=dict(stats))
                c = e.__cause__ or e
                return self.fail(f'step-raised {b2.step_label(step)} {bg.role_text(project, type(c).__name__ + ": " + str(c))[:70]}',
                                 f'{b2.step_label(step)} raised {type(e).__name__}: {e}')
            model.apply(step)
            stats['transitions'] += 1
        sched = self.sched
        out = self.d / f'out{i}_{os.getpid()}'
        out.mkdir()
        sched.build_args['output_dir'] = str(out)
        log = []
        try:
            sched.process(make_probe(log))
            sched.process(FileWriteTransformation())
        except Exception as e:   # pylint: disable=broad-except
            c = e.__cause__ or e
            return self.fail(f'step-raised later-processing {bg.role_text(project, type(c).__name__ + ": " + str(c))[:70]}',
                             f'probe / file write after the step raised {type(e).__name__}: {e}')
        # ---- observations
        cache = sched.item_factory.item_cache
        for key, it in cache.items():
            if str(key).lower() != str(it.name).lower():
                return self.fail(f'cache-key kind={type(it).__name__}', f'cache key {key!r} holds an item named {it.name!r}')
        graph_procs = {}
        for it in sched.items:
            if isinstance(it, ProcedureItem):
                graph_procs[it.name.lower()] = it
        for name, it in graph_procs.items():
            try:
                irn = it.ir.name.lower() if it.ir is not None else None
            except Exception as e:   # pylint: disable=broad-except
                irn = f'<{type(e).__name__}>'
            if irn != it.local_name.lower():
                return self.fail('item-ir-name', f'graph item {name} has an IR node named {irn}')
            if cache.get(name) is not it:
                return self.fail('item-not-in-cache', f'graph item {name} is not the cache entry of that name')
        written = {p.name: p.read_text() for p in out.iterdir() if p.is_file()}
        files, wnames = output_program(project, written)
        prog = b2.read_program(files)
        self.final = (None, None, prog, files, wnames)
        # model-free invariants first: the graph against the output program itself
        dups = [x for x in prog.duplicates() if any(f in wnames for f in x[1])]
        if dups:
            nm, fs = dups[0]
            kindd = 'procedure' if '#' in nm else 'module'
            self.final = (f'duplicate-definition {kindd}', f'{nm} is defined in {fs} of the output program', prog, files, wnames)
            return self.finish()
        reach = prog.reachable(self.root_key)
        ref_items = {b2.item_name(k) for k in reach}
        if set(graph_procs) != ref_items:
            lack, stale = sorted(ref_items - set(graph_procs)), sorted(set(graph_procs) - ref_items)
            what = 'graph-lacks-unit' if lack else 'graph-has-unreachable-item'
            return self.fail(f'graph-items {what}', f'procedure items of the graph {sorted(graph_procs)}; units reachable from the driver '
                             f'in the output program {sorted(ref_items)} (missing {lack}, not reachable {stale})')
        visited = collections.Counter(n for n, _ in log)
        if set(visited) != set(graph_procs) or any(c != 1 for c in visited.values()):
            return self.fail('probe-visits', f'probe visited {dict(visited)}, graph has {sorted(graph_procs)}')
        unres = [x for x in prog.unresolved() if x[0] in wnames]
        if unres:
            u = unres[0]
            kindu = u[2].split(' ')[0].split(':')[0]
            self.final = ('unresolved-reference ' + kindu, f'{u[1]} in {u[0]}: {u[2]}', prog, files, wnames)
            return self.finish()
        # the reference model: same units, same calls
        if model.precise:
            names, _, bad = walk_parallel(model, prog, self.root_key)
            if bad is not None:
                return self.fail(bad[0], bad[1])
            for u, key in names.items():
                model.nodes[u]['name'] = key[1]
                model.nodes[u]['module'] = key[0]
        stats['steps_judged'] += 1
        return None

    def finish(self):
        """gfortran: all written files + the originals they need + the harness driver, one build"""
        project, model, stats = self.project, self.model, self.stats
        fcu, detu, prog, files, wnames = self.final
        needed = all_needed(prog, self.root_key, wnames)
        r, hit = build_and_run(prog, files, needed, project.driver_program())
        stats['gfortran_builds'] += 0 if hit else 1
        stats['gfortran_cached'] += 1 if hit else 0
        got = [ln.strip() for ln in r['out'].splitlines() if ln.strip()]
        if fcu:
            if r['ok']:
                return dict(kind='harness', detail=f'reader: {detu}; but gfortran links and runs {needed}: {got}', stats=dict(stats))
            return self.fail(fcu, detu + f'  [gfortran: {r["stage"]} error: {r["err"][-300:].strip()}]')
        if not r['ok']:
            err = r['err']
            m = re.search(r'Error: (.*)', err) or re.search(r'(undefined reference to .*)', err) or re.search(r'(multiple definition of .*)', err)
            msg = bg.role_text(project, m.group(1) if m else err[-80:])
            msg = re.sub(r'[`\'\u2018\u2019]', "'", msg)
            return self.fail(f'does-not-build {r["stage"]} {msg[:60]}', f'gfortran {r["stage"]} of {needed} fails: {err[-500:]}')
        want = model.simulate()
        has_rem = any(s[0] == 'rem' for s in self.hist)
        if not has_rem and model.precise and got != want:
            return self.fail('output-differs', f'the output program prints {got}, the reference model {want}')
        stats['renamed'] = 1 if any(nd['name'] != model.markers[nd['origin']] for nd in model.nodes.values()) else 0
        stats['copies'] = 1 if len(model.nodes) > project.n else 0
        stats['removed'] = 1 if len(model.reachable()) < len(Model(project).reachable()) else 0
        return dict(kind='ok', stats=dict(stats), expand=model.precise,
                    sig=hashlib.sha1(json.dumps([sorted(files.items()), got]).encode()).hexdigest()[:16])


def _initial(r):
    if r['kind'] == 'fail' and r.get('step') == 0:
        # the untouched project is already inconsistent (e.g. two files whose names differ only in case share one cache
        # key): that is the business of C21..C23, not of a property about transformations
        return dict(r, kind='initial')
    return r


def run_state(pspec, hist, base=None):
    """Replay one state from scratch.  -> dict(kind = ok | fail | refusal | harness | initial | na, fc, detail, step, stats)
    `Scheduler._discover` iterates a set of paths: the order is pinned (sorted) through the `set` seam of vf/batchgen.py."""
    project = b2.build_project2(pspec)
    if project is None or any(s[0] in ('dup', 'rem') and s[1] >= project.n for s in hist):
        return dict(kind='na')
    R = Runner(pspec, base)
    try:
        with bg.discovery_order(None):
            for step in [None] + [list(s) for s in hist]:
                r = R.advance(step)
                if r is not None:
                    return _initial(r)
            return _initial(R.finish())
    finally:
        R.close()


def expand_children(pspec, hist, steps, base=None):
    """The state (pspec, hist) is rebuilt once; every successor runs in a forked copy of the process, which inherits the live
    Scheduler (live Loki objects do not copy reliably, an OS-level copy does).  -> [(step, result)]"""
    R = Runner(pspec, base)
    out = []
    try:
        with bg.discovery_order(None):
            for step in [None] + [list(s) for s in hist]:
                r = R.advance(step)
                if r is not None:
                    return [(a, dict(kind='harness', detail=f'prefix {hist} diverged while replaying: {r.get("fc")} {r.get("detail")}'))
                            for a in steps]
            for a in steps:
                rd, wr = os.pipe()
                pid = os.fork()
                if pid == 0:
                    code = 0
                    try:
                        os.close(rd)
                        t0 = _cpu()
                        R.stats = collections.Counter()
                        try:
                            r = R.advance(list(a))
                            if r is None:
                                r = R.finish()
                        except BaseException as e:   # pylint: disable=broad-except
                            r = dict(kind='harness', detail=f'child raised {type(e).__name__}: {e}')
                        r['cpu'] = _cpu() - t0
                        with os.fdopen(wr, 'w') as f:
                            f.write(json.dumps(r))
                    except BaseException:   # pylint: disable=broad-except
                        code = 1
                    finally:
                        os._exit(code)
                os.close(wr)
                with os.fdopen(rd) as f:
                    data = f.read()
                os.waitpid(pid, 0)
                try:
                    r = json.loads(data)
                except ValueError:
                    r = dict(kind='harness', detail=f'forked successor {a} of {hist} died without a result')
                out.append((a, r))
        return out
    finally:
        R.close()


# ----------------------------------------------------------------------------- BFS plumbing
def setup_process():
    from vf import lokiperf
    lokiperf.speedup()
    bg.quiet_loki()


def _cpu():
    import resource
    a, b = resource.getrusage(resource.RUSAGE_SELF), resource.getrusage(resource.RUSAGE_CHILDREN)
    return a.ru_utime + a.ru_stime + b.ru_utime + b.ru_stime


def expand(unit):
    """unit = (pspec, parent history | None, steps) -> list of (history, result)"""
    setup_process()
    pspec, parent, steps = unit
    if parent is None:
        t0 = _cpu()
        r = run_state(pspec, [], _CFG.get('scratch'))
        r['cpu'] = _cpu() - t0
        return [([], r)]
    t0 = _cpu()
    res = expand_children(pspec, parent, steps, _CFG.get('scratch'))
    out = [(list(parent) + [list(a)], r) for a, r in res]
    if out:
        out[0][1]['cpu'] = out[0][1].get('cpu', 0.0) + (_cpu() - t0 - sum(r.get('cpu', 0.0) for _, r in out))
    return out


def norm_case(case):
    return dict(p=b2.pspec2_json(case['p']), h=[list(s) for s in case['h']])


def smaller(case):
    c = norm_case(case)
    h = c['h']
    for k in range(len(h)):
        yield dict(c, h=h[:k] + h[k + 1:])
    for k, s in enumerate(h):
        if s[0] == 'dup' and s[2]:
            yield dict(c, h=h[:k] + [[s[0], s[1], False]] + h[k + 1:])
        if s[0] == 'dep' and s[1]:
            yield dict(c, h=h[:k] + [['dep', None]] + h[k + 1:])
        if s[0] in ('dup', 'rem') and s[1] > 1:
            yield dict(c, h=h[:k] + [[s[0], 1] + s[2:]] + h[k + 1:])
    if c['p'].get('decl', 'implicit') != 'implicit':
        yield dict(c, p=dict(c['p'], decl='implicit'))
    used = [s[1] for s in h if s[0] in ('dup', 'rem')]
    for sm in bg.smaller_cases(dict(p={k: v for k, v in c['p'].items() if k != 'decl'}, c=[], o=None)):
        if sm['p']['n'] <= max(used + [0]):
            continue
        yield dict(c, p=dict(sm['p'], decl=c['p'].get('decl', 'implicit')))


_LAST = {}


def fails_as(case):
    r = run_state(case['p'], case['h'])
    _LAST['detail'] = r.get('detail')
    if r['kind'] == 'harness':
        return 'HARNESS ' + str(r.get('detail'))
    return r.get('fc') if r['kind'] == 'fail' else None


def family(fc):
    return fc.split(' ')[0]


def signature_of(fc, core):
    c = norm_case(core)
    p = c['p']
    a = ['history=' + ('>'.join(b2.step_label(s) for s in c['h']) or 'none')]
    if p['layout'] != 'free':
        a.append(f'layout={p["layout"]}')
    if p['imp'] != 'only':
        a.append(f'import={p["imp"]}')
    if p.get('decl', 'implicit') != 'implicit':
        a.append(f'decl={p["decl"]}')
    return f'{fc} | ' + ' '.join(a)


_KNOWN = {}       # verdicts of the states explored by this run: state key -> failure class | None (the state holds)


def state_key(case):
    c = norm_case(case)
    p = dict(c['p'])
    p.pop('names', None)
    return json.dumps([p, c['h']], sort_keys=True)


def shrink_one(item):
    """The search is breadth-first and exhaustive, so most smaller candidates are states this run has already judged:
    their verdicts are looked up, only candidates outside the explored space are executed."""
    fc, case = item

    def still(c):
        k = state_key(c)
        if k in _KNOWN:
            got = _KNOWN[k]
        else:
            try:
                got = fails_as(c)
            except Exception:   # pylint: disable=broad-except
                return False
        return got is not None and family(got) == family(fc)
    core = shrink(norm_case(case), still, smaller, budget=60)
    got = fails_as(core)
    return core, got or fc, _LAST.get('detail') or ''


def attr_key(fc, case):
    c = norm_case(case)
    p = c['p']
    return json.dumps([fc, b2.layout_class(p), p['imp'], p.get('decl'), [b2.step_label(s) for s in c['h']]])


L4 = ('free', 'ownmod', 'shared', 'mixed')
L6 = L4 + ('onemod', 'bundle_mixed')
CHAIN, FULL = [[0, 1], [1, 2]], [[0, 1], [0, 2], [1, 2]]


def project_sets(names, quick):
    """-> [(project spec, history depth bound)] over the call DAGs on <= 3 procedures x layout x import style x declaration style.
    SMALL = projects with <= 2 procedures or the chain / complete DAG on 3 procedures;  L4 = layouts free, ownmod, shared, mixed.
    quick:    depth 2 on SMALL with ONLY-imports in L4; depth 1 on every other SMALL project (all 16 layouts x 3 import styles)
    thorough: depth 3 on <= 2 procedures with ONLY-imports in L4; depth 2 on every DAG with ONLY-imports in L4;
              depth 1 on every other project"""
    out = []
    for s in b2.enumerate_projects2(3, names=names):
        small = s['n'] <= 2 or s['edges'] in (CHAIN, FULL)
        core = s['imp'] == 'only' and s['layout'] in L4
        if quick:
            if not small:
                continue
            d = 2 if core else 1
        else:
            d = 3 if (core and s['n'] <= 2) else (2 if core else 1)
        out.append((s, d))
    return out


def run(ctx):
    from vf.explore import seeded_order
    _CFG['scratch'] = str(ctx.scratch)
    ctx.reset_pool()
    setup_process()
    names = ctx.seed % len(bg.NAME_POOLS)
    psets = project_sets(names, ctx.quick)
    depthmap = {json.dumps(s, sort_keys=True): d for s, d in psets}
    maxdepth = max(depthmap.values())
    depth_of = lambda s: depthmap[json.dumps(s, sort_keys=True)]
    frontier = [(s, None, None) for s, _ in psets]      # (project, parent history, successor steps)
    total = collections.Counter()
    failures, levels, sigs = [], [], set()
    harness = []
    for level in range(0, maxdepth + 1):
        if not frontier:
            break
        units = seeded_order(frontier, ctx.seed)
        t0 = ctx.elapsed()
        results = ctx.pmap(expand, units, chunksize=1)
        nxt = []
        lv = collections.Counter()
        for (s, _, _), res in zip(units, results):
            for h, r in res:
                lv['states'] += 1
                lv[r['kind']] += 1
                lv['cpu'] += r.get('cpu', 0.0)
                for k, v in (r.get('stats') or {}).items():
                    total[k] += v
                if r['kind'] in ('ok', 'fail'):
                    _KNOWN[state_key(dict(p=s, h=h))] = r.get('fc') if r['kind'] == 'fail' else None
                if r['kind'] == 'fail':
                    if r['step'] != len(h):
                        harness.append(f'history {h} of {s} fails at step {r["step"]} although its prefix state passed: {r["fc"]}')
                    failures.append((r['fc'], dict(p=s, h=h), r['detail']))
                elif r['kind'] == 'harness':
                    harness.append(f'{s} {h}: {r["detail"]}')
                elif r['kind'] == 'ok':
                    sigs.add(r['sig'])
                    if len(h) < depth_of(s) and r.get('expand', True):
                        nxt.append((s, h, alphabet(s['n'])))
        total.update(lv)
        levels.append(dict(depth=level, states=lv['states'], ok=lv['ok'], violating=lv['fail'], refusals=lv['refusal'],
                           initial_state_inconsistent=lv['initial'], wall_s=round(ctx.elapsed() - t0, 1), cpu_s=round(lv['cpu'], 1)))
        frontier = nxt
        if os.environ.get('VERIF_PROGRESS'):
            import sys
            print(f'[C25] level {level}: {levels[-1]}', file=sys.stderr, flush=True)
    ctx.require(not harness, f'harness inconsistency ({len(harness)}): {harness[:2]}')
    ctx.require(total['states'] >= 500 and total['renamed'] >= 50 and total['copies'] >= 50 and total['removed'] >= 50,
                f'vacuous: {total["states"]} states, renamed={total["renamed"]} copies={total["copies"]} removed={total["removed"]}')
    buckets = {}
    for fc, case, det in failures:
        buckets.setdefault(attr_key(fc, case), []).append((fc, case, det))
    reps = []
    for ak, lst in sorted(buckets.items()):
        lst.sort(key=lambda x: (len(x[1]['h']), x[1]['p']['n'], len(x[1]['p']['edges']), bg.LAYOUTS.index(x[1]['p']['layout']),
                                json.dumps(norm_case(x[1]), sort_keys=True)))
        reps.append((lst[0][0], lst[0][1]))
    ctx.reset_pool()          # the shrink workers must see the verdict table
    cores = ctx.pmap(shrink_one, reps, chunksize=1) if reps else []
    first, rest = {}, []
    for (ak, lst), (core_case, core_fc, core_det) in zip(sorted(buckets.items()), cores):
        sig = signature_of(core_fc, core_case)
        if sig not in first:
            first[sig] = (sig, core_case, core_det)
        rest += [(sig, case, det) for _, case, det in lst]
    for sig, case, det in list(first.values()) + rest:
        ctx.violation(sig, case, det)
    ctx.cov.update(
        states=total['states'], transitions=total['transitions'], traces_validated_against_impl=total['gfortran_builds'] + total['gfortran_cached'],
        evaluations=total['steps_judged'], distinct_nontrivial=len(sigs), exhaustive=True,
        rule='state = (project, history); every state is rebuilt by replaying its history on a fresh Scheduler, every step followed by a '
             'probe pass and a file write and judged; transitions = transformation applications; traces_validated = states whose '
             'output program was linked and run by gfortran (build results are memoised on the program text); distinct_nontrivial = '
             'distinct (output program, printed output) of passing states; violating states are not expanded',
        bound=dict(levels=levels, max_depth=maxdepth,
                   projects_by_depth_bound={str(d): sum(1 for _, dd in psets if dd == d) for d in sorted(set(depthmap.values()))},
                   depth_rule=project_sets.__doc__, alphabet_n3=alphabet(3), nmax=3, decls=list(b2.DECLS), name_pool=names),
        samples=[dict(project=[s for s, d in psets if d == maxdepth][-1], history=[['dup', 1, True], ['dep', '_mod']])],
        gfortran_builds=total['gfortran_builds'], gfortran_memoised=total['gfortran_cached'], refusals=total['refusal'],
        states_with_renames=total['renamed'], states_with_copies=total['copies'], states_with_removed_units=total['removed'],
        failure_buckets=len(buckets), cpu_s=round(total['cpu'], 1),
        initial_state_inconsistent=total['initial'],
    )
    ctx.assumptions += [
        'role: the root is the driver, every other procedure a kernel; replicate/ignore are not part of the menu (every processed '
        'original is replaced by its written file in the output program)',
        'the reference model predicts call structure only; current names are read from the written sources; a history that duplicates '
        'the same kernel twice is judged by the model-free invariants only',
        'output equality is demanded for histories without RemoveKernel; with RemoveKernel the program must build and run',
        'gfortran builds one translation unit made of the needed files in provider-first order',
    ]


def replay(case):
    setup_process()
    fc = fails_as(case)
    return f'{fc}: {_LAST.get("detail")}' if fc else None
