"""C31  Loop transformations preserve behaviour where they apply.

ENUM (deviation-bounded, one template per transformation family) + gfortran differential run.
Seven families, each a kernel assembled from *switches*, one per branch / shortcut visible in the code
of loki/transformations/transform_loop.py and loop_blocking.py:

unroll   (LoopUnrollTransformer.visit_Loop, do_loop_unroll)
    range        every literal (start, stop, step) of [-2..4]^2 x {omitted,1,-1,2,-2,3} (quick: [-1..3]^2 x
                 {omitted,1,-1,2,-2}); empty, single-trip, non-dividing and descending ranges are all in there
                 (get_pyrange is the range model of the unroller)
    body         how the body uses the index: subscript + arithmetic (base), read after the loop, under `**`,
                 negated / subtracted, offset subscripts, MOD, in a condition, as actual argument, in the bounds of
                 an inner loop (counter_in_bounds), CYCLE / EXIT inside the body (top level and below an outer
                 loop), named construct, PARAMETER bound (must be left alone)
unrollnest (depth handling: depth=None/1/2/3, neighbour_loops, counter_in_bounds, nested pragmas)
    depth(n) on 2- and 3-deep nests, pragma on the inner loop (plain / depth(1)), neighbouring inner loops,
    inner bounds literal / descending / depending on the outer index / symbolic, outer loop symbolic, the
    parent/child depth conflict of the do_loop_unroll docstring
fusion   (do_loop_fusion)
    second loop's variable (same, other, other in upper case), lower / upper bound different but compatible
    (literal, n-1, n+1, other symbol), `range(..)` hints on one / all pragmas, named group, two interleaved groups,
    three loops, statement between the loops, insert-loc, collapse(2) on perfect nests (+ non-matching inner
    bound, + index names swapped between the nests: i/j then j/i), private scalar in the bodies, conditional in a body, explicit unit step, non-unit / negative step
    (Polyhedron asserts: refusal).  Legality holds by construction: every loop updates its own array from
    read-only data.
fission  (do_loop_fission, FissionTransformer, promotion_dimensions_from_loop_nest)
    fission point(s) at each statement boundary, scalar crossing the point via promote(..) / via auto-promotion /
    not at all (promote=False is only paired with programs that need no promotion), lower bound 0/2, upper bound
    n-1 / literal, descending and strided loop, collapse(2), pragma only in the inner loop of a nest, pragma in the
    outer loop after an inner loop, pragma inside a conditional, array temporary, same temporary in two fission
    loops of different length, upper-case name in promote(..), array element written before and updated after
    the fission point (auto-promotion looks at names, not elements)
interchange (do_loop_interchange, generate_loop_bounds)
    2- and 3-deep nests, implicit / explicit variable order (all permutations), project_bounds on rectangular
    and triangular (j=i,m / j=1,i) nests (triangular nests only with project_bounds=True: otherwise the
    precondition is violated), literal bounds, lower bound 0, explicit steps (with project_bounds: Polyhedron
    asserts, refusal), extra pragma on the nest
split    (split_loop)  loop bounds 1:n, 2:n, 0:n-1, stride 2, descending, descending stride 2, literal; block
    size 1, 2, 3, 4, 7, 100 (divides / does not divide / equals / exceeds the trip count over n = 0..7), block
    size given as a scalar variable
block    (split_loop + block_loop_arrays)  block sizes as above; arrays: 1-d in/inout/out, 2-d with a section
    `c(:, i)`, 2-d with an inner loop index `c(j, i)`, blocked dimension first `d(i, j)`, array declared with
    lower bound 0 ... only loops `1:n` with unit stride (the copy ranges are written in iteration numbers)

The unroll ranges are batched: one kernel per start value holds one pragma-marked loop per (start, stop, step)
triple (each with its own outputs); a kernel that fails is bisected down to single triples, unless its body feature
already fails on the default range in the same way.
Every combination of <= d switches (d=1 quick, d=2 thorough) of each family x the family's transformation
variants (direct utility and TransformLoopsTransformation) is built twice (original / transformed, gfortran -O0
-fcheck=bounds -finit-integer so that a rewrite that reads a no longer assigned variable fails deterministically)
with the same harness-owned driver, which runs the kernel on a grid of sizes and prints every output.

Readings taken (weaker ones): AssertionError raised inside loki.analyse.util_polyhedron (steps != 1) is counted
as an explicit refusal; order of floating-point operations is never an issue (dyadic values, independent
iterations); a loop variable's value after a fused / fissioned / interchanged / split loop is not observed
(only after unrolling, where the statement says "always preserves").
"""
import hashlib

from vf import xform, w2_xgroup
from vf.explore import deviations

PROPERTY = 'C31'
LEVEL = 'exploration'
META = dict(
    engine='enum',
    technique='deviation-bounded exhaustive template enumeration per loop-transformation family x complete literal '
              '(start,stop,step) grid for unrolling; gfortran differential run (original vs transformed)',
    level_text='unroll: every literal (start,stop,step) in [-2..4]^2 x {-,1,-1,2,-2,3} x 14 body shapes; depth(n) on 2/3-deep '
               'nests; fusion / fission / interchange / split_loop / block_loop_arrays templates with all combinations '
               'of <= d switches: transformed code compiles and prints exactly the original output for every size in '
               'the input grid; exhaustive for d',
    level_note='gfortran 12 -O0 -fcheck=bounds -finit-integer=-9999 is the semantics; exact dyadic reals; legality of '
               'fusion/fission/interchange holds by construction (each loop/statement owns its output array)',
)

FLAGS = xform.FLAGS + ('-finit-integer=-9999', '-finit-real=nan')

# ============================================================================ unroll
U_DEFAULT = (3, -2, -2)


def u_grid(quick):
    lo, hi = (-1, 3) if quick else (-2, 4)
    steps = (None, 1, -1, 2, -2) if quick else (None, 1, -1, 2, -2, 3)
    out = []
    for a in range(lo, hi + 1):
        for b in range(lo, hi + 1):
            for st in steps:
                if (a, b, st) != U_DEFAULT:
                    out.append((a, b, st))
    return out


def u_batches(quick):
    """the grid, one batch of loops per start value (several loops per kernel: one compile per batch; a failing
    batch is bisected down to single triples by run())"""
    by_start = {}
    for t in u_grid(quick):
        by_start.setdefault(t[0], []).append(t)
    return [tuple(v) for _, v in sorted(by_start.items())]


def u_values(t):
    a, b, st = t
    st = 1 if st is None else st
    return list(range(a, b + (1 if st > 0 else -1), st))


def u_class(t):
    n = len(u_values(t))
    return f'trip{n if n < 2 else "N"}{"+" if (t[2] or 1) > 0 else "-"}'


U_BODIES = {
    # name: (extra body lines, lines after the loop, wrapper); $k = number of the loop in the batch
    'after': ([], ['iv($k) = i'], None),
    'power': (['s($k) = s($k) + i**2'], [], None),
    'negate': (['s($k) = s($k) - i + (-i)*2'], [], None),
    'offset_sub': (['a(i + 1, $k) = a(i - 1, $k) + 1.0', 'a(2*i, $k) = a(2*i, $k) - 0.5'], [], None),
    'mod': (['s($k) = s($k) + mod(i, 3) + abs(i)'], [], None),
    'cond': (['if (i > 0) then', '  s($k) = s($k) + 1', 'else', '  s($k) = s($k) - 2', 'end if'], [], None),
    'call_arg': (['call bump(i, s($k))'], [], None),
    'inner_dep': (['do j = 0, i', '  s($k) = s($k) + j*(i + 5) + 1', 'end do'], [], None),
    'cycle_top': (['@first if (i == 1) cycle'], [], None),
    'exit_top': (['@first if (i == 1) exit'], [], None),
    'cycle_in_outer': (['@first if (i == 1) cycle'], [], 'outer'),
    'exit_in_outer': (['@first if (i == 1) exit'], [], 'outer'),
    'named': ([], [], 'named'),
    'param_bound': ([], [], 'param'),
}

U_HEAD = """module lmod
  implicit none
contains
  subroutine bump(k, s)
    integer, intent(in) :: k
    integer, intent(inout) :: s
    s = s + 2*k
  end subroutine bump
  subroutine kern(a, s, iv, nb)
    integer, intent(in) :: nb
    real, intent(inout) :: a(-9:9, nb)
    integer, intent(inout) :: s(nb), iv(nb)
    integer :: i, j, ko
    integer, parameter :: np = 3
    j = -77
"""
U_TAIL = """  end subroutine kern
end module lmod
"""
U_DRIVER = """program drv
  use lmod
  implicit none
  integer, parameter :: nb = @NB@
  real :: a(-9:9, nb)
  integer :: s(nb), iv(nb), g, e, k
  do g = 1, 2
    do k = 1, nb
      do e = -9, 9
        a(e, k) = real(e*g + k) * 0.25
      end do
      s(k) = g + mod(k, 3)
      iv(k) = 0
    end do
    call kern(a, s, iv, nb)
    write(*,'(A,I0)') 'G', g
    do k = 1, nb
      write(*,'(A,I0,19(1X,ES14.7))') 'A', k, a(:, k)
      write(*,'(A,I0,1X,I0,1X,I0)') 'S', k, s(k), iv(k)
    end do
  end do
end program drv
"""


def u_build(dev):
    triples = dev.get('range', (U_DEFAULT,))
    extra, after, wrap = U_BODIES[dev['body']] if 'body' in dev else ([], [], None)
    first = [ln[7:] for ln in extra if ln.startswith('@first ')]
    rest = [ln for ln in extra if not ln.startswith('@first ')]
    body = first + ['a(i, $k) = a(i, $k) + real(i)*0.5', 's($k) = s($k)*3 + i'] + rest
    out = []
    for k, (a, b, st) in enumerate(triples, 1):
        rng = f'{a}, {b}' + (f', {st}' if st is not None else '')
        if wrap == 'param':
            rng = '1, np'
        name = 'lp$k: ' if wrap == 'named' else ''
        end = ' lp$k' if wrap == 'named' else ''
        lines = ['!$loki loop-unroll', f'{name}do i = {rng}'] + ['  ' + ln for ln in body] + [f'end do{end}']
        if wrap == 'outer':
            lines = ['do ko = 1, 2'] + ['  ' + ln for ln in lines] + ['  s($k) = s($k) + 1000*ko', 'end do']
        lines = ['i = -77'] + lines + after
        out += [ln.replace('$k', str(k)) for ln in lines]
    return U_HEAD + ''.join(f'    {ln}\n' for ln in out) + U_TAIL, U_DRIVER.replace('@NB@', str(len(triples)))


def u_menu(quick):
    return {'range': u_batches(quick), 'body': list(U_BODIES)}


# ============================================================================ unroll, nests and depth
N_HEAD = '''module lmod
  implicit none
contains
  subroutine kern(c, s, n)
    real, intent(inout) :: c(0:4, 0:4)
    integer, intent(inout) :: s
    integer, intent(in) :: n
    integer :: i, j, k, j2
    i = -77
    j = -77
    k = -77
    j2 = -77
'''
N_DRIVER = '''program drv
  use lmod
  implicit none
  real :: c(0:4, 0:4)
  integer :: s, g, e, f
  do g = 1, 2
    do e = 0, 4
      do f = 0, 4
        c(e, f) = real(e*g - f) * 0.25
      end do
    end do
    s = g
    call kern(c, s, 1 + g)
    write(*,'(A,I0)') 'G', g
    write(*,'(A,25(1X,ES14.7))') 'C', c
    write(*,'(A,I0)') 'S', s
  end do
end program drv
'''
N_MENU = {
    'depth': [1, 2, 3],
    'levels': [3],
    'inner_pragma': ['plain', 'depth1'],
    'neighbour': [True],
    'jbounds': ['dep_lo', 'dep_hi', 'sym', 'desc'],
    'outer_sym': [True],
    'kbounds': ['dep'],
    'docstring_example': [True],
}


def n_build(dev):
    dev = dict(dev)
    if dev.get('docstring_example'):
        dev.update(depth=1, inner_pragma='plain', neighbour=True)
    depth = dev.get('depth')
    levels = dev.get('levels', 2)
    if 'kbounds' in dev:
        levels = 3
    jb = {'dep_lo': 'i, 2', 'dep_hi': '1, i', 'sym': '1, n', 'desc': '2, 1, -1'}.get(dev.get('jbounds'), '1, 2')
    kb = '1, j' if dev.get('kbounds') == 'dep' else '1, 2'
    ib = '1, n' if dev.get('outer_sym') else '1, 2'
    L = [f'!$loki loop-unroll{f" depth({depth})" if depth else ""}', f'do i = {ib}', '  s = s + 7*i']
    ip = dev.get('inner_pragma')
    if ip:
        L.append('  !$loki loop-unroll' + (' depth(1)' if ip == 'depth1' else ''))
    L.append(f'  do j = {jb}')
    if levels == 3:
        L += [f'    do k = {kb}', '      s = mod(s*2 + i*9 + j*3 + k, 10007)', '      c(i, j) = c(i, j) + real(k)*0.5', '    end do']
    else:
        L += ['    s = mod(s*2 + i*9 + j*3, 10007)', '    c(i, j) = c(i, j) + real(i)*0.5']
    L.append('  end do')
    if dev.get('neighbour'):
        L += ['  do j2 = 1, 2', '    s = mod(s*2 + j2 + i, 10007)', '    c(j2, 0) = c(j2, 0) + 1.5', '  end do']
    L.append('end do')
    return N_HEAD + ''.join(f'    {ln}\n' for ln in L) + U_TAIL, N_DRIVER


# ============================================================================ shared pieces for fusion / fission / ...
DECL = '''module lmod
  implicit none
contains
  subroutine kern(a, b, c, d, e, p, a2, b2, c3, q, n, m, k, nn)
    integer, intent(in) :: n, m, k, nn
    real, intent(inout) :: a(0:nn), b(0:nn), c(0:nn), d(0:nn)
    real, intent(inout) :: e(:)
    real, intent(in) :: p(0:nn)
    real, intent(inout) :: a2(0:nn, 0:nn), b2(0:nn, 0:nn), c3(0:nn, 0:nn, 0:nn)
    real, intent(inout) :: q
    integer :: i, j, l, ii, jj
    real :: t, u, tt(2)
'''
GRID_DRIVER = '''program drv
  use lmod
  implicit none
  integer, parameter :: nn = 6, ng = 6
  integer, parameter :: ns(ng) = (/ 3, 4, 2, 1, 0, 5 /), ms(ng) = (/ 3, 2, 5, 1, 2, 4 /), ks(ng) = (/ 1, 2, 0, 1, 1, 3 /)
  real :: a(0:nn), b(0:nn), c(0:nn), d(0:nn), e(0:nn), p(0:nn), a2(0:nn, 0:nn), b2(0:nn, 0:nn), c3(0:nn, 0:nn, 0:nn), q
  integer :: g, ie, f, h
  do g = 1, ng
    do ie = 0, nn
      a(ie) = real(ie) * 0.5 - 1.0
      b(ie) = real(mod(ie*g, 4)) * 0.25 + 1.0
      c(ie) = real(ie - g) * 0.25
      d(ie) = 2.0 - real(ie)
      e(ie) = 1.0 + real(ie)*0.25
      p(ie) = real(mod(ie + g, 3)) * 0.5 + 0.25
      do f = 0, nn
        a2(ie, f) = real(ie - 2*f) * 0.25
        b2(ie, f) = real(ie*f) * 0.125
        do h = 0, nn
          c3(ie, f, h) = real(ie + 2*f - h) * 0.5
        end do
      end do
    end do
    q = 0.5 * real(g)
    call kern(a, b, c, d, e, p, a2, b2, c3, q, ns(g), ms(g), ks(g), nn)
    write(*,'(A,I0)') 'G', g
    write(*,'(A,7(1X,ES14.7))') 'A', a
    write(*,'(A,7(1X,ES14.7))') 'B', b
    write(*,'(A,7(1X,ES14.7))') 'C', c
    write(*,'(A,7(1X,ES14.7))') 'D', d
    write(*,'(A,7(1X,ES14.7))') 'E', e
    write(*,'(A,49(1X,ES14.7))') 'A2', a2
    write(*,'(A,49(1X,ES14.7))') 'B2', b2
    write(*,'(A,343(1X,ES14.7))') 'C3', c3
    write(*,'(A,1X,ES14.7)') 'Q', q
  end do
end program drv
'''


def wrap_kernel(lines, decl=DECL):
    return decl + ''.join(f'    {ln}\n' for ln in lines) + U_TAIL


# ============================================================================ fusion
F_MENU = {
    'var2': ['j', 'J'],
    'lo2': ['2', '0', 'k'],
    'hi2': ['n - 1', 'n + 1', 'm', '4'],
    'hi1': ['m'],
    'hint': ['loop2', 'all'],
    'group': ['named'],
    'third': ['same', 'other_group'],
    'between': [True],
    'insert_loc': [True],
    'collapse': [2, '2_inner_differs', '2_swapped'],
    'scalar_tmp': [True],
    'cond_body': [True],
    'step': ['unit', 'two', 'descending'],
}


def f_build(dev):
    col = dev.get('collapse')
    v2 = dev.get('var2', 'i')
    lo2, hi2, hi1 = dev.get('lo2', '1'), dev.get('hi2', 'n'), dev.get('hi1', 'n')
    grp = ' group(g1)' if dev.get('group') == 'named' else ''
    colp = ' collapse(2)' if col else ''
    rng = ' range(0:nn,0:nn)' if col else ' range(0:nn)'
    hint = dev.get('hint')
    step = {'unit': ', 1', 'two': ', 2', 'descending': ', -1'}.get(dev.get('step'), '')

    def loop(idx, var, lo, hi, arr, coef, pragma_extra='', group=grp):
        if dev.get('step') == 'descending':
            lo, hi = hi, lo
        out = [f'!$loki loop-fusion{group}{colp}{pragma_extra}', f'do {var} = {lo}, {hi}{step}']
        if col:
            inner_hi = 'm - 1' if (col == '2_inner_differs' and idx == 2) else 'm'
            # '2_swapped': nest 1 runs i/j, nest 2 runs j/i (its inner variable is the first nest's outer one), so the
            # renaming of the second body has to be one simultaneous substitution
            iv = {1: 'j', 2: 'i'}.get(idx, 'jj') if col == '2_swapped' else 'jj'
            out += [f'  do {iv} = 1, {inner_hi}',
                    f'    {arr}2({var}, {iv}) = {arr}2({var}, {iv}) + p({var})*real({iv})*{coef}', '  end do']
        elif dev.get('cond_body') and idx == 2:
            out += [f'  if (p({var}) > 0.5) then', f'    {arr}({var}) = {arr}({var}) + {coef}', '  else',
                    f'    {arr}({var}) = {arr}({var}) - real({var})', '  end if']
        elif dev.get('scalar_tmp'):
            out += [f'  t = p({var})*{coef}', f'  {arr}({var}) = {arr}({var}) + t + real({var})']
        else:
            out += [f'  {arr}({var}) = {arr}({var}) + p({var})*{coef} + real({var})']
        out.append('end do')
        return out

    L = loop(1, 'i', '1', hi1, 'a', '2.0', rng if hint == 'all' else '')
    if dev.get('between'):
        L += ['q = q + 1.5']
    third = dev.get('third')
    if third == 'other_group' and not col:
        L += loop(3, 'i', '1', 'n', 'c', '4.0', group=' group(g2)')
    if col == '2_swapped':
        v2 = 'j'
    L += loop(2, v2, lo2, hi2, 'b', '0.5', (rng if hint else '') + (' insert-loc' if dev.get('insert_loc') else ''))
    if third == 'same' and not col:
        L += loop(3, 'i', '1', 'm', 'c', '4.0', rng if hint == 'all' else '')
    if third == 'other_group' and not col:
        L += loop(4, 'i', '2', 'n', 'd', '1.5', group=' group(g2)')
    return wrap_kernel(L), GRID_DRIVER


# ============================================================================ fission
S_MENU = {
    'points': ['second', 'both'],
    'carry': ['auto', 'explicit', 'explicit_upper'],
    'lo': ['0', '2'],
    'hi': ['n - 1', '4'],
    'step': ['descending', 'two'],
    'nest': ['collapse2', 'inner_only', 'outer_after_inner'],
    'in_cond': [True],
    'array_tmp': [True],
    'two_loops_same_tmp': [True],
    'raw_array': [True],
}


def s_build(dev):
    carry = dev.get('carry')
    lo, hi = dev.get('lo', '1'), dev.get('hi', 'n')
    st = dev.get('step')
    rng = f'{hi}, {lo}, -1' if st == 'descending' else (f'{lo}, {hi}, 2' if st == 'two' else f'{lo}, {hi}')
    pts = dev.get('points', 'first')
    nest = dev.get('nest')
    atmp = dev.get('array_tmp')
    prom = {'explicit': ' promote(t)', 'explicit_upper': ' promote(T)'}.get(carry, '')
    if atmp and prom:
        prom = prom.replace('t)', 'tt)').replace('T)', 'TT)')
    col = ' collapse(2)' if nest == 'collapse2' else ''
    two_d = nest in ('collapse2', 'inner_only')
    x = (lambda arr: f'{arr}2(i, j)') if two_d else (lambda arr: f'{arr}(i)')
    tv = 'tt(1)' if atmp else 't'
    s1 = [f'{tv} = p(i)*2.0', f'{x("a")} = {x("a")} + {tv}']
    if atmp:
        s1.insert(1, 'tt(2) = p(i) + 0.5')
    s2 = [f'{x("b")} = {x("b")} + ' + (f'{tv}*0.5' + (' + tt(2)' if atmp else '') if carry else 'p(i)*0.5')]
    s3 = ['c(i) = c(i) + real(i) + p(i)'] if not two_d else ['c3(i, j, 1) = c3(i, j, 1) + real(i + j)*0.5']
    if dev.get('raw_array'):
        # the array written before the fission point is updated again after it (same element: still independent)
        s1.append('e(i + 1) = e(i + 1) + p(i)')
        s3 = ['e(i + 1) = e(i + 1)*2.0']
    pr = f'!$loki loop-fission{col}'
    body = list(s1)
    if pts in ('first', 'both'):
        body.append(pr + prom)
    if dev.get('in_cond'):
        body = ['if (p(i) > 0.5) then'] + ['  ' + ln for ln in body + s2] + ['end if']
    else:
        body += s2
    if pts in ('second', 'both'):
        # a scalar crossing the second point as well would need promotion there too: only s2 reads it
        body.append(pr)
    body += s3
    L = []
    if two_d:
        L += ['do j = 1, m', f'  do i = {rng}'] + ['    ' + ln for ln in body] + ['  end do', 'end do']
    elif nest == 'outer_after_inner':
        L += [f'do i = {rng}', '  do j = 1, m', '    a2(i, j) = a2(i, j) + p(i)*real(j)', '  end do'] + \
             ['  ' + ln for ln in body] + ['end do']
    else:
        L += [f'do i = {rng}'] + ['  ' + ln for ln in body] + ['end do']
    if dev.get('two_loops_same_tmp'):
        L += ['do i = 1, m', f'  {tv} = p(i) + 1.0', f'  !$loki loop-fission{prom}', f'  d(i) = d(i) + {tv}', 'end do']
    return wrap_kernel(L), GRID_DRIVER


def s_needs_promote(dev):
    return dev.get('carry') == 'auto' or (dev.get('two_loops_same_tmp') and 'carry' not in dev) or \
        (dev.get('array_tmp') and dev.get('carry') in (None, 'auto'))


# ============================================================================ interchange
I_MENU = {
    'depth': [3],
    'order': ['explicit', 'p1', 'p2', 'p3', 'p4'],
    'shape': ['tri_lower', 'tri_upper'],
    'bounds': ['literal', 'lb0'],
    'step': ['unit', 'neg_outer', 'two_inner'],
    'extra_pragma': [True],
}
I_PERMS3 = {'p1': 'i, l, j', 'p2': 'j, i, l', 'p3': 'j, l, i', 'p4': 'l, i, j', 'explicit': 'l, j, i'}


def i_build(dev):
    depth = dev.get('depth', 2)
    order = dev.get('order')
    if order in ('p1', 'p2', 'p3', 'p4'):
        depth = 3
    shape, bnd, st = dev.get('shape'), dev.get('bounds'), dev.get('step')
    lo = '0' if bnd == 'lb0' else '1'
    ihi, jhi = ('3', '4') if bnd == 'literal' else ('n', 'm')
    ir_ = f'{lo}, {ihi}'
    jr = {'tri_lower': f'i, {jhi}', 'tri_upper': f'{lo}, i'}.get(shape, f'{lo}, {jhi}')
    if st == 'unit':
        ir_, jr = ir_ + ', 1', jr + ', 1'
    elif st == 'neg_outer':
        ir_ = f'{ihi}, {lo}, -1'
    elif st == 'two_inner':
        jr += ', 2'
    if order is None:
        par = ''
    elif depth == 3:
        par = f' ({I_PERMS3[order]})'
    else:
        par = ' (j, i)'
    L = [f'!$loki loop-interchange{par}']
    if dev.get('extra_pragma'):
        L.append('!$loki some-pragma')
    L += [f'do i = {ir_}', f'  do j = {jr}']
    if depth == 3:
        L += ['    do l = 1, k', '      c3(i, j, l) = c3(i, j, l) + real(i*16 + j*4 + l)*0.5', '    end do']
    else:
        L += ['    a2(i, j) = a2(i, j) + real(i*8 + j)*0.5 + p(i)']
    L += ['  end do', 'end do']
    return wrap_kernel(L), GRID_DRIVER


# ============================================================================ split_loop / block_loop_arrays
B_DECL = '''module lmod
  implicit none
contains
  subroutine kern(a, b, c, d, e, p, a2, b2, c3, q, n, m, k, nn)
    integer, intent(in) :: n, m, k, nn
    real, intent(inout) :: a(0:nn), b(0:nn)
    real, intent(out) :: c(0:nn)
    real, intent(inout) :: d(0:nn)
    real, intent(inout) :: e(:)
    real, intent(in) :: p(0:nn)
    real, intent(inout) :: a2(0:nn, 0:nn), b2(0:nn, 0:nn), c3(0:nn, 0:nn, 0:nn)
    real, intent(inout) :: q
    integer :: i, j
    integer, parameter :: bs = 3
'''
B_DRIVER = GRID_DRIVER.replace('ng = 6', 'ng = 8') \
    .replace('ns(ng) = (/ 3, 4, 2, 1, 0, 5 /)', 'ns(ng) = (/ 0, 1, 2, 3, 4, 5, 6, 6 /)') \
    .replace('ms(ng) = (/ 3, 2, 5, 1, 2, 4 /)', 'ms(ng) = (/ 3, 2, 5, 1, 2, 4, 0, 6 /)') \
    .replace('ks(ng) = (/ 1, 2, 0, 1, 1, 3 /)', 'ks(ng) = (/ 1, 2, 0, 1, 1, 3, 2, 2 /)')
BS_MENU = {
    'bounds': ['2, n', '0, n - 1', '1, n, 2', 'n, 1, -1', 'n, 2, -2', '1, 5'],
    'block_size': [1, 3, 4, 7, 100, 'var'],
    'body': ['accumulate'],
}
BB_MENU = {
    'block_size': [1, 3, 4, 7, 100],
    'arrays': ['out_only', 'section2d', 'inner_index2d', 'blocked_first', 'in_only_read'],
    'upper': ['literal'],
}


def bs_build(dev):
    rng = dev.get('bounds', '1, n')
    L = ['c = 0.0', f'do i = {rng}', '  a(i) = a(i) + p(i)*2.0 + real(i)', '  c(i) = b(i) * 0.5']
    if dev.get('body') == 'accumulate':
        L += ['  q = q*2.0 + real(i)']
    L += ['end do']
    return wrap_kernel(L, B_DECL), B_DRIVER


def bb_build(dev):
    rng = '1, 5' if dev.get('upper') == 'literal' else '1, n'
    arr = dev.get('arrays')
    L = ['c = 0.0', f'do i = {rng}']
    if arr == 'out_only':
        L += ['  c(i) = real(i)*0.5']
    elif arr == 'section2d':
        L += ['  a(i) = a(i) + 1.0', '  a2(:, i) = a2(:, i) + a(i)']
    elif arr == 'inner_index2d':
        L += ['  a(i) = a(i) + 1.0', '  do j = 0, m', '    a2(j, i) = a2(j, i)*2.0 + b(i)', '  end do']
    elif arr == 'blocked_first':
        L += ['  do j = 0, m', '    b2(i, j) = b2(i, j) + p(i)*real(j)', '  end do']
    elif arr == 'in_only_read':
        L += ['  q = q + p(i)*real(i)']
    else:
        L += ['  a(i) = a(i) + p(i)*2.0 + real(i)', '  c(i) = b(i) * 0.5']
    L += ['end do']
    return wrap_kernel(L, B_DECL), B_DRIVER


# ============================================================================ case stream
FAMILIES = {
    # name: (menu(quick) -> dict, build(dev) -> (text, driver), [(xform, opts)...], filter(dev, xf, opts) -> bool)
    'unroll': (u_menu, u_build, [('unroll', {}), ('trafo', dict(loop_unroll=True))], None),
    'unrollnest': (lambda q: N_MENU, n_build, [('unroll', {})], None),
    'fusion': (lambda q: F_MENU, f_build, [('fusion', {}), ('trafo', dict(loop_fusion=True))], None),
    'fission': (lambda q: S_MENU, s_build,
                [('fission', dict(promote=True, warn_loop_carries=True)),
                 ('fission', dict(promote=False, warn_loop_carries=False)),
                 ('trafo', dict(loop_fission=True))],
                # collapse(2)/inner-only nests x raw_array: e(i + 1) would be updated once per outer iteration, which makes the
                # outer iterations dependent (fission of both levels is then illegal): never generated
                lambda dev, xf, o: not (s_needs_promote(dev) and o.get('promote') is False)
                and not (dev.get('raw_array') and dev.get('nest') in ('collapse2', 'inner_only'))),
    'interchange': (lambda q: I_MENU, i_build,
                    [('interchange', dict(project_bounds=False)), ('interchange', dict(project_bounds=True)),
                     ('trafo', dict(loop_interchange=True, interchange_project_bounds=True))],
                    lambda dev, xf, o: not ('shape' in dev and not (o.get('project_bounds') or
                                                                    o.get('interchange_project_bounds')))),
    'split': (lambda q: BS_MENU, bs_build, [('split', {})], None),
    'block': (lambda q: BB_MENU, bb_build, [('block', {})], None),
}


def range_label(triples):
    triples = [tuple(t) for t in triples]
    one = lambda t: '(' + ','.join('-' if x is None else str(x) for x in t) + ')'
    if len(triples) == 1:
        return one(triples[0])
    h = hashlib.sha1(repr(triples).encode()).hexdigest()[:6]
    return f'{one(triples[0])}..{one(triples[-1])}x{len(triples)}#{h}'


def fmt_val(v):
    if isinstance(v, (tuple, list)):
        return range_label(v)
    return str(v).replace(' ', '')


def dev_id(dev):
    return '+'.join(f'{k}={fmt_val(v)}' for k, v in dev.items()) or 'base'


def case_id(fam, dev, xf, opts):
    oid = ','.join(f'{k}={v}' for k, v in sorted(opts.items()))
    return f'{fam}:{dev_id(dev)}|{xf}({oid})'


def make_case(fam, dev, n):
    _, build, xfs, _ = FAMILIES[fam]
    xf, opts = xfs[n]
    text, driver = build(dev)
    block_size = dev.get('block_size', 2) if fam in ('split', 'block') else None
    o = dict(opts, block_size=block_size) if block_size is not None else dict(opts)
    return dict(id=case_id(fam, dev, xf, opts), sources=[['lmod.f90', text]], driver=driver,
                xform=xf, opts=o, family=fam, variant=n,
                switches=[[k, ([list(t) for t in v] if isinstance(v, tuple) else v)] for k, v in dev.items()])


def make_cases(d, quick=None):
    """every combination of <= d switches per family x the family's transformation variants.
    The unroll grid is the quick sub-grid for d == 1 unless `quick` says otherwise."""
    quick = (d <= 1) if quick is None else quick
    cases = []
    for fam, (menu, _, xfs, keep) in FAMILIES.items():
        for dev in deviations(menu(quick), d):
            for n, (xf, opts) in enumerate(xfs):
                if keep and not keep(dev, xf, opts):
                    continue
                if xf == 'trafo' and (len(dev) > 1 or 'range' in dev):
                    continue        # the Transformation wrapper adds no branch of its own: d <= 1, default range only
                cases.append(make_case(fam, dev, n))
    return cases


def case_dev(case):
    return {k: (tuple(tuple(t) for t in v) if k == 'range' else v) for k, v in case['switches']}


def apply(case, files):
    from loki import FindNodes, ir
    from loki.transformations import transform_loop as tl
    from loki.transformations import loop_blocking as lb
    xf, o = case['xform'], dict(case['opts'])
    for sf in files.values():
        for r in sf.all_subroutines:
            if r.name.lower() != 'kern':
                continue
            try:
                if xf == 'unroll':
                    tl.do_loop_unroll(r)
                elif xf == 'fusion':
                    tl.do_loop_fusion(r)
                elif xf == 'fission':
                    tl.do_loop_fission(r, **o)
                elif xf == 'interchange':
                    tl.do_loop_interchange(r, **o)
                elif xf == 'trafo':
                    tl.TransformLoopsTransformation(**o).apply(r)
                elif xf in ('split', 'block'):
                    bs = o['block_size']
                    if bs == 'var':
                        bs = r.variable_map['bs']
                    loop = FindNodes(ir.Loop).visit(r.body)[0]
                    sv, inner, outer = lb.split_loop(r, loop, bs)
                    if xf == 'block':
                        lb.block_loop_arrays(r, sv, inner, outer, ['i'])
                else:
                    raise ValueError(xf)
            except Exception as ex:  # pylint: disable=broad-except
                if polyhedron_assert(ex):
                    raise NotImplementedError('Polyhedron.from_loop_ranges asserts unit loop steps '
                                              '(non-unit step not supported)') from ex
                crash = internal_crash(ex)
                if crash:
                    raise RuntimeError(crash) from ex
                raise


CRASH_TYPES = (TypeError, AttributeError, KeyError, IndexError, NameError, ZeroDivisionError, AssertionError,
               UnboundLocalError, RecursionError)


def exception_chain(ex):
    seen = []
    while ex is not None and not any(ex is s for s in seen):
        seen.append(ex)
        ex = ex.__cause__ or ex.__context__
    return seen


def internal_crash(ex):
    """xform.is_refusal matches the word 'unsupported' / 'cannot' anywhere in the message, which also hits CPython's
    own messages ("unsupported operand type(s) for -", "cannot unpack ...").  A Python programming error at the root
    of the chain is a crash, never a refusal: re-word the message so that it is classified as loki-exception."""
    root = exception_chain(ex)[-1]
    if isinstance(root, CRASH_TYPES) or type(root).__name__ == 'ValidationError':
        msg = str(root).replace('unsupported', 'unsupp.').replace('cannot ', 'can not ').replace('not supported', 'not supp.')
        msg = msg.replace('not possible', 'not poss.').replace('not implemented', 'not impl.')
        return f'internal {type(root).__name__}: {msg[:200]}'
    return None


def polyhedron_assert(ex):
    """bare `assert loop_range.step is None or == 1` in util_polyhedron (possibly wrapped by Transformation.apply)"""
    import traceback
    seen = set()
    while ex is not None and id(ex) not in seen:
        seen.add(id(ex))
        if isinstance(ex, AssertionError):
            tb = traceback.extract_tb(ex.__traceback__)
            if tb and tb[-1].filename.endswith('util_polyhedron.py') and tb[-1].name == 'from_loop_ranges':
                return True
        ex = ex.__cause__ or ex.__context__
    return False


def worker(case):
    r = xform.run_case(case, apply, base=worker.base, flags=FLAGS)
    r['id'] = case['id']
    return r


worker.base = None


def group_worker(cases):
    """cases with identical sources and driver (transformation variants): the original is built once"""
    return w2_xgroup.run_group(cases, apply, base=worker.base, flags=FLAGS)


def bad(r):
    return r['verdict'] not in ('ok', 'unchanged-ok', 'refused')


def sigfn(results_by_id):
    def sig(case, r):
        fam = case['family']
        _, _, xfs, _ = FAMILIES[fam]
        xf, opts = xfs[case['variant']]
        dev = case_dev(case)
        labels = []
        for k, v in dev.items():
            if k == 'range':
                labels.append('range[' + ','.join(sorted({u_class(t) for t in v})) + ']')
                continue        # a batch of ranges is never its own explanation: it is bisected to single triples
            labels.append(f'{k}={fmt_val(v)}')
            single = results_by_id.get(case_id(fam, {k: v}, xf, opts))
            if single and single['verdict'] == r['verdict']:
                return f'{r["verdict"]} block={labels[-1]} xform={fam}'
        if len(labels) == 1:
            return f'{r["verdict"]} block={labels[0]} xform={fam}'
        return f'{r["verdict"]} blocks={"+".join(labels) or "base"} xform={fam}'
    return sig


def explained_by_body(case, r, by_id):
    dev = case_dev(case)
    if 'body' not in dev:
        return False
    _, _, xfs, _ = FAMILIES[case['family']]
    xf, opts = xfs[case['variant']]
    single = by_id.get(case_id(case['family'], {'body': dev['body']}, xf, opts))
    return bool(single) and single['verdict'] == r['verdict']


def refine_batches(ctx, cases, results, by_id):
    """bisect every failing batch of unroll ranges (that is not explained by its body feature failing on the default
    range in the same way) down to single (start, stop, step) triples; passing halves stay in as evaluations."""
    out_c, out_r, pending = [], [], []
    for c, r in zip(cases, results):
        dev = case_dev(c)
        if c['family'] == 'unroll' and bad(r) and len(dev.get('range', ())) > 1 and not explained_by_body(c, r, by_id):
            pending.append((c, r))
        else:
            out_c.append(c)
            out_r.append(r)
    rounds = 0
    while pending:
        rounds += 1
        halves, parent = [], []
        for c, r in pending:
            dev = case_dev(c)
            tr = dev['range']
            for part in (tr[:len(tr) // 2], tr[len(tr) // 2:]):
                halves.append(make_case('unroll', dict(dev, range=tuple(part)), c['variant']))
                parent.append((c, r))
        res = w2_xgroup.judge_grouped(ctx, halves, group_worker)
        failing_parents = set()
        nxt = []
        for h, hr, (pc, pr) in zip(halves, res, parent):
            if bad(hr):
                failing_parents.add(pc['id'])
                if len(case_dev(h)['range']) > 1:
                    nxt.append((h, hr))
                    continue
            out_c.append(h)
            out_r.append(hr)
        for pc, pr in pending:
            if pc['id'] not in failing_parents:      # fails only as a whole: keep the batch itself as the violating case
                out_c.append(pc)
                out_r.append(pr)
        pending = nxt
    return out_c, out_r, rounds


def run(ctx):
    d = 1 if ctx.quick else 2
    cases = make_cases(d, quick=ctx.quick)
    worker.base = str(ctx.scratch)
    ctx.reset_pool()
    results = w2_xgroup.judge_grouped(ctx, cases, group_worker)
    by_id = {r['id']: r for r in results}
    cases, results, rounds = refine_batches(ctx, cases, results, by_id)
    results, flaky = w2_xgroup.confirm_violations(ctx, cases, results, group_worker)
    by_id = {**by_id, **{r['id']: r for r in results}}
    xform.summarise(ctx, cases, results, sigfn(by_id), min_changed=50)
    per_family = {}
    triples_ok = set()
    for c, r in zip(cases, results):
        f = per_family.setdefault(c['family'], dict(cases=0, changed_ok=0, refused=0, violating=0))
        f['cases'] += 1
        f['changed_ok'] += int(r['verdict'] == 'ok' and bool(r.get('changed')))
        f['refused'] += int(r['verdict'] == 'refused')
        f['violating'] += int(bad(r))
        if c['family'] == 'unroll' and r['verdict'] == 'ok':
            dev = case_dev(c)
            triples_ok |= {(dev.get('body', 'base'), t) for t in dev.get('range', (U_DEFAULT,))}
    for fam, f in per_family.items():
        ctx.require(f['changed_ok'] >= 3, f'vacuous: family {fam} changed only {f["changed_ok"]} programs')
    grid = u_grid(ctx.quick)
    classes = sorted({u_class(t) for t in grid})
    ctx.require(len(classes) == 6, f'unroll grid misses a range class: {classes}')
    ctx.cov.update(
        exhaustive=True,
        bound=dict(max_switches=d, families={f: {k: len(v) for k, v in FAMILIES[f][0](ctx.quick).items()} for f in FAMILIES},
                   unroll_grid=len(grid) + 1, unroll_range_classes=classes, unroll_batches=len(u_batches(ctx.quick))),
        per_family=per_family, flaky_verdicts=flaky, unroll_body_x_triple_ok=len(triples_ok), bisection_rounds=rounds,
        rule=f'per family all combinations of <= {d} switch settings x transformation variants; unroll: complete literal '
             f'(start,stop,step) grid of {len(grid) + 1} triples, one kernel per start value holding one pragma-marked loop '
             'per triple (failing kernels are bisected to single triples); 2 to 8 input sizes per run; non-trivial = the '
             'transformation changed the generated code and the program still prints the original output',
        samples=[dict(id=cases[0]['id']), dict(id=cases[-1]['id'], text=cases[-1]['sources'][0][1][:3000])],
    )
    ctx.assumptions += ['gfortran -O0 -fcheck=bounds -finit-integer=-9999 -finit-real=nan defines behaviour',
                        'only standard-conforming programs are generated; fusion/fission/interchange legality by construction',
                        'AssertionError from Polyhedron.from_loop_ranges (step != 1) is read as an explicit refusal']


def replay(case):
    r = w2_xgroup.replay_case(case, apply, flags=FLAGS)
    if r['verdict'] == 'HARNESS':
        raise RuntimeError(r['detail'])
    return None if r['verdict'] in ('ok', 'unchanged-ok', 'refused') else f'{r["verdict"]}: {r["detail"]}'
