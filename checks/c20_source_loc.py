"""C20  Recorded source locations match the original text (full and regex frontend).

ENUM.  Streams: (a) every file of the layout grammar (`vf.layoutgen`, base + <= d deviations, each one
validated with gfortran -fsyntax-only) parsed in four ways -- FP, REGEX (AllClasses), and the two lazy
paths used by batch processing: REGEX(ProgramUnitClass) followed by make_complete(frontend=FP) resp.
make_complete(frontend=REGEX, AllClasses); (b) every *.f90/*.F90 shipped in the repository that the
frontend accepts (FP and REGEX, parsed as they are, no preprocessing).

Oracle -- deliberately the *weaker* reading of "span and text correspond to the text at those lines":
for every IR node / program unit that carries a `source`
  A  1 <= l0 <= l1 <= number of '\\n'-separated pieces of the file (l1 = None is read as l0);
  C  `source.string` with all white space removed is contained in the white-space-free text of lines l0..l1;
  D  generated files only: when the node can be paired with a generator statement (same unit, same kind,
     same position in source order, equal counts) and that statement is alone on its line(s), l0 is the
     line the generator put the statement on, and the recorded text (if any) is not empty (clause N);
  E  the span lies inside the span of the nearest enclosing node that has a source.
Nothing is demanded about *which* sub-string of a line a node records, about l1 of single statements, or
about nodes without source; nodes whose recorded text is empty (FP gives the empty spec/body sections of an
empty routine a one-line span just after it) are judged by clause A only.  On the lazy paths a node whose numbers satisfy A/C/D only after adding the
start line of an enclosing re-parsed top-level unit is reported under one separate signature
("line numbers relative to the re-parsed unit") so that it cannot mask other defects.
"""
import os
from pathlib import Path

from vf import layoutgen as LG

PROPERTY = 'C20'
LEVEL = 'exploration'
META = dict(
    engine='enum',
    technique='deviation-bounded layout enumeration + all shipped Fortran sources; span/text containment, generator line '
              'numbers, span nesting for every node with source, four parse paths',
    level_text='every layout file with <= d deviations (gfortran-validated) x {FP, REGEX, REGEX->complete(FP), '
               'REGEX->complete(REGEX)} and every shipped *.f90/*.F90 x {FP, REGEX}: all nodes with source satisfy the '
               'containment oracle (weaker reading)',
    level_note='line numbers of generated statements are known by construction; text containment is judged against the '
               'file text itself; no Loki code in the oracle',
)

MODES = ('fp', 'regex', 'lazy_fp', 'lazy_regex')
GROUPS = {
    'unit': ('module_begin', 'subroutine_begin', 'function_begin'),
    'Import': ('use',),
    'CallStatement': ('call', 'if_call'),
    'TypeDef': ('type_begin',),
    'Interface': ('iface_begin',),
    'VariableDeclaration': ('decl',),
    'ProcedureDeclaration': ('binding', 'generic', 'modproc'),
    'Assignment': ('assign',),
    'Conditional': ('if_call',),
}
_CFG = {}


def _setup():
    import logging
    logging.disable(logging.CRITICAL)
    from loki import config
    config['regex-frontend-timeout'] = 0


def squeeze(s):
    return ''.join(s.split())


# ------------------------------------------------------------------ Loki side
CPU_BUDGET = 0.5


ATTEMPTS = 3


def parse(text, mode):
    """One of the four parse paths.  A parse that exhausts the CPU budget of its REGEX part is repeated from scratch
    (only ATTEMPTS exhaustions in a row count: on a loaded machine a single one is noise)."""
    for attempt in range(ATTEMPTS):
        try:
            return _parse(text, mode)
        except LG.CpuBudget:
            if attempt == ATTEMPTS - 1:
                raise
    return None


def _parse(text, mode):
    """Calls into the REGEX frontend get a CPU budget (see vf.layoutgen.cpu_guard)."""
    from loki import Sourcefile, Frontend
    from loki.frontend import RegexParserClass as R
    if mode == 'fp':
        return Sourcefile.from_source(text, frontend=Frontend.FP)
    if mode == 'regex':
        with LG.cpu_guard(CPU_BUDGET):
            return Sourcefile.from_source(text, frontend=Frontend.REGEX)
    with LG.cpu_guard(CPU_BUDGET):
        sf = Sourcefile.from_source(text, frontend=Frontend.REGEX, parser_classes=R.ProgramUnitClass)
    if mode == 'lazy_fp':
        sf.make_complete(frontend=Frontend.FP)
    elif mode == 'lazy_regex':
        with LG.cpu_guard(CPU_BUDGET):
            sf.make_complete(frontend=Frontend.REGEX, parser_classes=R.AllClasses)
    else:
        raise ValueError(mode)
    return sf


def collect(sf):
    """Flat list of records for every node / program unit with source, in traversal (= source) order."""
    from loki import ir
    from loki.program_unit import ProgramUnit
    recs = []

    def rec(obj, cls, path, parent):
        src = getattr(obj, 'source', None)
        if src is None or src.lines is None:
            return parent
        l0, l1 = src.lines
        r = dict(cls=cls, unit=path, l0=l0, l1=l1 if l1 is not None else l0, string=src.string, parent=parent,
                 idx=len(recs), inline=bool(getattr(obj, 'inline', False)))
        recs.append(r)
        return r['idx']

    def walk(x, path, parent):
        if isinstance(x, (tuple, list)):
            for y in x:
                walk(y, path, parent)
        elif isinstance(x, ProgramUnit):
            p = (path + '/' if path else '') + x.name.lower()
            me = rec(x, 'unit', p, parent)
            for part in (x.docstring, x.spec, getattr(x, 'body', None), x.contains):
                if part is not None:
                    walk(part, p, me)
        elif isinstance(x, ir.Node):
            me = rec(x, type(x).__name__, path, parent)
            for c in x.children:
                walk(c, path, me)

    walk(sf.ir, '', None)
    return recs


# ------------------------------------------------------------------ oracle
def judge(text, recs, lay=None, lazy=False, fragments=()):
    """Returns list of (clause, cls, message, relative) for the violating records; `relative` marks records of a
    lazy path whose numbers fit after adding the start of a re-parsed top-level unit."""
    lines = text.split('\n')
    n = len(lines)
    sq = [squeeze(l) for l in lines]
    offsets = [0]
    if lazy and lay is not None:
        # any program unit may have been re-parsed on its own (also nested ones that REGEX took for top-level)
        # ... or a top-level fragment of the initial REGEX parse (`fragments`: their start lines)
        offsets += sorted(({s.l0 - 1 for s in lay.stmts if s.kind in GROUPS['unit']} | {f - 1 for f in fragments}) - {0})

    # pairing with generator statements (clause D)
    want = {}
    if lay is not None:
        by = {}
        for r in recs:
            if r['cls'] in GROUPS and not (r['cls'] == 'Conditional' and not r['inline']):
                by.setdefault((r['cls'], r['unit']), []).append(r)
        for (cls, unit), rs in by.items():
            if cls == 'unit':
                ss = [s for s in lay.stmts if s.kind in GROUPS[cls] and s.unit == unit]
            else:
                ss = [s for s in lay.stmts if s.kind in GROUPS[cls] and s.unit == unit]
            if len(ss) != len(rs):
                continue
            for r, s in zip(rs, ss):
                if s.solo:
                    want[r['idx']] = s.l0

    def clauses(r, off):
        l0, l1 = r['l0'] + off, r['l1'] + off
        if not 1 <= l0 <= l1 <= n:
            return 'A', f'span ({r["l0"]}, {r["l1"]}) outside 1..{n}'
        if r['string'] is not None:
            if squeeze(r['string']) not in ''.join(sq[l0 - 1:l1]):
                return 'C', (f'text {r["string"][:80]!r} recorded for lines ({r["l0"]}, {r["l1"]}) is not in those '
                             f'lines: {" / ".join(lines[l0 - 1:l1])[:120]!r}')
        if r['idx'] in want and l0 != want[r['idx']]:
            return 'D', (f'statement is on line {want[r["idx"]]} of the file, node records '
                         f'({r["l0"]}, {r["l1"]}) {(r["string"] or "")[:60]!r}')
        if r['idx'] in want and r['string'] is not None and not r['string'].strip():
            return 'N', f'empty text recorded for the statement on line {want[r["idx"]]}'
        return None

    out = []
    off_of = {}
    for r in recs:
        bad = clauses(r, 0)
        off_of[r['idx']] = 0
        if bad is None:
            continue
        for off in offsets[1:]:
            if clauses(r, off) is None:
                off_of[r['idx']] = off
                out.append(('R', r['cls'], f'{r["cls"]} in {r["unit"] or "file"}: recorded ({r["l0"]}, {r["l1"]}) '
                            f'{(r["string"] or "")[:50]!r}, found at file lines ({r["l0"] + off}, {r["l1"] + off})', True))
                break
        else:
            out.append((bad[0], r['cls'], f'{r["cls"]} in {r["unit"] or "file"}: {bad[1]}', False))
    for r in recs:
        if r['parent'] is None or (r['string'] is not None and not r['string'].strip()):
            continue      # placeholder nodes without text (empty sections of empty routines) have nothing to locate
        p = recs[r['parent']]
        a0, a1 = r['l0'] + off_of[r['idx']], r['l1'] + off_of[r['idx']]
        b0, b1 = p['l0'] + off_of[p['idx']], p['l1'] + off_of[p['idx']]
        if not (b0 <= a0 and a1 <= b1):
            rel = lazy and (off_of[r['idx']] != 0 or off_of[p['idx']] != 0 or _fits_shifted(r, p, offsets))
            out.append(('R' if rel else 'E', r['cls'],
                        f'{r["cls"]} ({r["l0"]}, {r["l1"]}) in {r["unit"] or "file"} lies outside its parent '
                        f'{p["cls"]} ({p["l0"]}, {p["l1"]})', rel))
    return out, len(want)


def _fits_shifted(r, p, offsets):
    """Child/parent spans become nested when one of them is shifted by a unit offset (lazy paths only)."""
    for off in offsets[1:]:
        if p['l0'] <= r['l0'] + off and r['l1'] + off <= p['l1']:
            return True
        if p['l0'] + off <= r['l0'] and r['l1'] <= p['l1'] + off:
            return True
    return False


def failures_generated(lay, mode):
    """{(clause, cls): message} for one generated file and one parse path ('X' = frontend raised)."""
    try:
        sf = parse(lay.text, mode)
    except (Exception, LG.CpuBudget) as e:  # pylint: disable=broad-except
        return {('X', type(e).__name__): f'{mode} parse raises {type(e).__name__}: {e}'[:300]}, 0, 0
    recs = collect(sf)
    viol, paired = judge(lay.text, recs, lay, lazy=mode.startswith('lazy'), fragments=fragments(lay.text, mode))
    return first_per_clause(viol), len(recs), paired


def fragments(text, mode):
    """Start lines of the top-level pieces (program units, raw source) that make_complete re-parses one by one."""
    if not mode.startswith('lazy'):
        return ()
    from loki import Sourcefile, Frontend
    from loki.frontend import RegexParserClass as R
    for _ in range(ATTEMPTS):
        try:
            with LG.cpu_guard(CPU_BUDGET):
                sf = Sourcefile.from_source(text, frontend=Frontend.REGEX, parser_classes=R.ProgramUnitClass)
            return tuple(n.source.lines[0] for n in sf.ir.body if getattr(n, 'source', None) is not None)
        except LG.CpuBudget:
            continue
        except Exception:  # pylint: disable=broad-except
            return ()
    return ()


def first_per_clause(viol):
    """One failure per clause: the first violating node in traversal order names the class.  (One root cause, e.g.
    an offset, hits every node of a file; the class of the first victim is enough to identify it.)"""
    out = {}
    seen = set()
    for clause, cls, msg, rel in viol:
        c = 'R' if rel else clause
        if c in seen:
            continue
        seen.add(c)
        out[(c, '*' if rel else cls)] = msg
    return out


_FAIL_CACHE = {}


def fails_small(devs, seed, mode):
    key = (LG.dev_key(devs), seed, mode)
    if key not in _FAIL_CACHE:
        _FAIL_CACHE[key] = failures_generated(LG.build(devs, seed), mode)[0]
    return _FAIL_CACHE[key]


def minimal_devs(devs, seed, mode, fkey):
    import itertools
    keys = sorted(devs)
    for k in range(len(keys)):
        for combo in itertools.combinations(keys, k):
            sub = {x: devs[x] for x in combo}
            f = fails_small(sub, seed, mode) if len(sub) <= 1 else failures_generated(LG.build(sub, seed), mode)[0]
            if fkey in f:
                return sub
    return dict(devs)


CLAUSE_TEXT = {'A': 'span outside the file', 'C': 'recorded text not in the recorded lines',
               'D': 'start line differs from the line of the statement', 'E': 'span outside the parent span',
               'R': 'line numbers relative to the re-parsed unit, not to the file', 'X': 'frontend raises',
               'N': 'empty text recorded for a statement'}


def sig_generated(mode, fkey, sub):
    clause, cls = fkey
    return f'{mode} {cls} {clause}:{CLAUSE_TEXT[clause]} devs={LG.dev_key(sub)}'


def work_generated(item):
    devs, seed = item
    _setup()
    lay = LG.build(devs, seed)
    res = dict(nodes=0, paired=0, viol=[], parses=0, refused=0, sample=None)
    for mode in MODES:
        f, nrec, paired = failures_generated(lay, mode) if len(devs) > 1 else \
            (fails_small(devs, seed, mode), *_counts(lay, mode))
        res['parses'] += 1
        res['nodes'] += nrec
        res['paired'] += paired
        for fkey, msg in f.items():
            if fkey[0] == 'X' and mode != 'fp':
                # REGEX refusing a file is C19's property; FP refusing a valid file is counted, not judged here
                res['refused'] += 1
                continue
            if fkey[0] == 'X':
                res['refused'] += 1
                continue
            sub = minimal_devs(devs, seed, mode, fkey)
            sig = sig_generated(mode, fkey, sub)
            res['viol'].append((sig, dict(kind='generated', devs=devs, seed=seed, mode=mode, fkey=list(fkey), sig=sig),
                                f'[{lay.key}] {msg}'))
    return res


def _counts(lay, mode):
    try:
        recs = collect(parse(lay.text, mode))
    except (Exception, LG.CpuBudget):  # pylint: disable=broad-except
        return 0, 0
    return len(recs), judge(lay.text, recs, lay, lazy=mode.startswith('lazy'), fragments=fragments(lay.text, mode))[1]


def failures_repo(path, mode):
    from loki import Sourcefile, Frontend
    text = Path(path).read_text(errors='replace')
    try:
        # same entry point a user takes; the oracle compares against the text Loki itself reads
        from loki.frontend.util import read_file
        text = read_file(Path(path))
        if mode == 'fp':
            sf = Sourcefile.from_file(path, frontend=Frontend.FP)
        else:
            with LG.cpu_guard(20 * CPU_BUDGET):
                sf = Sourcefile.from_file(path, frontend=Frontend.REGEX)
    except (Exception, LG.CpuBudget) as e:  # pylint: disable=broad-except
        return None, 0, f'{type(e).__name__}'
    recs = collect(sf)
    viol, _ = judge(text, recs, None, lazy=False)
    out = {}
    for clause, cls, msg, _rel in viol:      # repository files: keep every (clause, class), they are few
        out.setdefault((clause, cls), msg)
    return out, len(recs), None


def work_repo(item):
    path, root = item
    _setup()
    res = dict(nodes=0, viol=[], parses=0, refused=0)
    rel = os.path.relpath(path, root)
    for mode in ('fp', 'regex'):
        f, nrec, refused = failures_repo(path, mode)
        if f is None:
            res['refused'] += 1
            continue
        res['parses'] += 1
        res['nodes'] += nrec
        for (clause, cls), msg in f.items():
            sig = f'repo-file {mode} {cls} {clause}:{CLAUSE_TEXT[clause]}'
            res['viol'].append((sig, dict(kind='repo', path=rel, mode=mode, fkey=[clause, cls], sig=sig),
                                f'[{rel}] {msg}'))
    return res


def gf_chunk(chunk):
    lays = [LG.build(d, s) for d, s in chunk]
    return LG.syntax_check(lays, _CFG.get('scratch'))


def repo_root():
    return os.environ.get('VERIF_REPO', '/repo').rstrip('/')


def repo_files():
    root = repo_root()
    out = []
    for dp, dn, fn in os.walk(root):
        dn[:] = [d for d in dn if d not in ('.git', 'build', '__pycache__')]
        for f in fn:
            if f.endswith(('.f90', '.F90')):
                out.append(os.path.join(dp, f))
    return sorted(out)


def run(ctx):
    _setup()
    d = 1 if ctx.quick else 2
    from vf.explore import seeded_order
    devlist = LG.cases(d)
    _CFG['scratch'] = str(ctx.scratch)
    ctx.reset_pool()
    pairs = [(x, ctx.seed) for x in devlist]
    chunks = [pairs[i:i + 20] for i in range(0, len(pairs), 20)]
    bad = [b for res in ctx.pmap(gf_chunk, chunks, chunksize=1) for b in res]
    ctx.require(not bad, f'generator emitted {len(bad)} file(s) gfortran rejects, first: {bad[:1]}')

    results = ctx.pmap(work_generated, seeded_order(pairs, ctx.seed), chunksize=4, ordered=False)
    files = repo_files()
    ctx.require(len(files) >= 50, f'only {len(files)} Fortran files found under {repo_root()}')
    rres = ctx.pmap(work_repo, [(f, repo_root()) for f in files], chunksize=2, ordered=False)

    nodes = sum(r['nodes'] for r in results)
    paired = sum(r['paired'] for r in results)
    parses = sum(r['parses'] for r in results)
    refused = sum(r['refused'] for r in results)
    rnodes = sum(r['nodes'] for r in rres)
    rparses = sum(r['parses'] for r in rres)
    rrefused = sum(r['refused'] for r in rres)
    for r in list(results) + list(rres):
        for sig, case, det in r['viol']:
            ctx.violation(sig, case, det)
    ctx.require(parses >= 3 * len(pairs), f'only {parses} parses of {4 * len(pairs)} succeeded')
    ctx.require(paired >= 20 * len(pairs), f'vacuous: only {paired} nodes paired with generator statements')
    ctx.require(rparses >= len(files), f'only {rparses} of {2 * len(files)} repository parses succeeded')
    base = LG.build({}, ctx.seed)
    moved = sum(1 for x in devlist if LG.build(x, ctx.seed).nlines != base.nlines)
    ctx.cov.update(
        evaluations=nodes + rnodes, distinct_nontrivial=paired,
        generated_files=len(pairs), generated_parses=parses, generated_nodes=nodes, generated_refused=refused,
        files_whose_deviations_move_lines=moved, traces_validated_against_impl=len(pairs),
        repo_files=len(files), repo_parses=rparses, repo_nodes=rnodes, repo_refused_parses=rrefused,
        exhaustive=True, bound=dict(deviations=d, switches=len(LG.MENU), values=sum(len(v) for v in LG.MENU.values()),
                                    modes=list(MODES), repo_modes=['fp', 'regex']),
        rule='evaluation = one node (IR node or program unit) carrying source, judged by clauses A/C/D/E; generated '
             'files = base + every combination of <= d deviation values, each parsed by FP, REGEX and the two lazy '
             'completion paths; repository files = every *.f90/*.F90 under the repo parsed by FP and REGEX (refusals '
             'counted); distinct_nontrivial = nodes paired with a generator statement that is alone on its line, i.e. '
             'nodes whose start line is checked against the line known by construction',
        samples=[dict(devs={}, mode='fp', first_lines=base.text.splitlines()[:5]),
                 dict(devs=devlist[min(3, len(devlist) - 1)], mode='lazy_fp'),
                 dict(repo_file=os.path.relpath(files[0], repo_root()), mode='regex')],
    )
    ctx.assumptions += [
        'weaker reading: white-space-insensitive containment of source.string in the recorded lines; l1 of single '
        'statements and the position inside a line are not judged',
        'gfortran 12 -std=f2008 -fsyntax-only decides validity of the generated files',
        'files the REGEX frontend cannot parse (C19 findings: bare END backtracking, crashes) are not judged here',
        'repository files are parsed without C preprocessing; files a frontend refuses are counted, not judged',
    ]


def replay(case):
    """Judge exactly the recorded case (its own file, parse path) and report any violation of the recorded kind
    (clause); the class named in the key is only the first victim and may differ between runs of one defect."""
    _setup()
    fkey = tuple(case['fkey'])
    if case['kind'] == 'repo':
        f, _, _refused = failures_repo(os.path.join(repo_root(), case['path']), case['mode'])
    else:
        f = failures_generated(LG.build(case['devs'], case.get('seed', 0)), case['mode'])[0]
    if not f:
        return None
    if fkey in f:
        return f[fkey]
    for (clause, _cls), msg in f.items():
        if clause == fkey[0]:
            return msg
    return None
