"""C42  Lint results do not depend on parallelism or completion order.

SCHED: the unmodified `lint_files` / `lint_files_glob` / `check_and_fix_file` / `Linter` / `Reporter` and the
real handlers, plus the unmodified `workqueue()` / `ParallelQueue` / `init_call` glue, run against the virtual
pool and virtual manager of `vf/vsched.py` (`Manager` and `as_completed` are rebound in `loki.lint.linter`,
`ProcessPoolExecutor` in `loki.jit_build.workqueue`; lint rules are the user-supplied seam).  Every task runs
the real `check_and_fix_file` in its own baton thread on a pickled copy of its arguments; scheduling points are
the operations on shared state: every append to a handler's (manager) report list and the completion of the
task's future.  For every file set, handler configuration, worker count and EVERY interleaving of those events:

  * per file, the multiset of (rule, message, location) parsed back from each handler's output equals the
    serial (`max_workers=1`) run's - file by file, never as text (the order of blocks is not promised);
  * the returned checked-file count equals the serial run's;
  * no file is reported more than once (JUnit: exactly one test suite per selected file).

Conformance (model <-> implementation): explored interleavings, one per class (order of appends per handler
list + completion order), are forced on the real `ProcessPoolExecutor` + real `multiprocessing.Manager` through
harness `GateHandler`s placed between the real handlers; the real outputs must equal the model's - for the
list-backed outputs (violations file, JUnit) including the order of blocks, which the model predicts; for the
default handler (messages leave through the log queue at handle() time, not modelled) per file.
"""
import collections
import gc
import importlib
import itertools
import logging
import os
import re
import shutil
import time
import xml.etree.ElementTree as ET
from pathlib import Path

from vf import vsched
from vf.vsched import Explorer, FixedChooser, Sched, VirtualExecutor, VirtualManager

PROPERTY = 'C42'
LEVEL = 'model_checking'
META = dict(
    engine='sched',
    technique='stateless DFS over all interleavings of shared-list appends and task completions of a virtual pool/manager '
              'driving the unmodified lint_files; one interleaving per class forced on the real process pool + Manager',
    level_text='file sets of <=3 (quick) / <=4 (thorough) files over {clean, one violation, several violations, unparsable} x '
               'handler configurations {default, +violations file, +JUnit; thorough: all three} x W in {1,2,3} x every interleaving of '
               'report appends and task completions (exact case list in coverage.rule)',
    level_note='virtual manager = model of multiprocessing.Manager (pickling at the boundary, shared lists), virtual pool = FIFO '
               'hand-out to W workers; between shared operations a task only touches its own copies',
)

KINDS = ['clean', 'one', 'several', 'bad']
STEM_POOLS = [['fa', 'fb', 'fc', 'fd'], ['x1', 'x2', 'x3', 'x4'], ['mod_a', 'mod_b', 'mod_c', 'mod_d']]
CONFIGS = {'D': (), 'DV': ('violations',), 'DJ': ('junit',), 'DJV': ('junit', 'violations')}


# ------------------------------------------------------------------------------------------
# harness lint rules (user-supplied seam) - must be importable by name (they are pickled)
# ------------------------------------------------------------------------------------------
from loki.lint import GenericRule, RuleType          # noqa: E402  (the runner imports loki before any check module)
from loki.ir import FindNodes, Assignment             # noqa: E402


class RuleRoutineName(GenericRule):
    type = RuleType.WARN
    docs = {'id': 'V.1', 'title': 'routine names must not start with bad_'}

    @classmethod
    def check_subroutine(cls, subroutine, rule_report, config, **kwargs):
        if subroutine.name.lower().startswith('bad_'):
            rule_report.add(f'routine {subroutine.name} has a bad name', subroutine)


class RuleZeroAssign(GenericRule):
    type = RuleType.SERIOUS
    docs = {'title': 'no assignment of literal zero'}

    @classmethod
    def check_subroutine(cls, subroutine, rule_report, config, **kwargs):
        for a in FindNodes(Assignment).visit(subroutine.body):
            if str(a.rhs) == '0':
                rule_report.add('assignment of zero', a)


class RuleFile(GenericRule):
    type = RuleType.INFO
    docs = {'id': 'V.3', 'title': 'files with more than one routine'}

    @classmethod
    def check_file(cls, sourcefile, rule_report, config):
        if len(sourcefile.routines) > 1:
            rule_report.add(f'{len(sourcefile.routines)} routines in one file', sourcefile)


def _rules():
    return [RuleRoutineName, RuleZeroAssign, RuleFile]


def file_text(kind, stem):
    if kind == 'clean':
        return f'subroutine ok_{stem}(x)\n  integer, intent(inout) :: x\n  x = 1\nend subroutine ok_{stem}\n'
    if kind == 'one':
        return f'subroutine bad_{stem}(x)\n  integer, intent(inout) :: x\n  x = 2\nend subroutine bad_{stem}\n'
    if kind == 'several':
        return (f'subroutine bad_{stem}(x, y)\n  integer, intent(inout) :: x, y\n  x = 0\n  y = 3\n  y = 0\n'
                f'end subroutine bad_{stem}\n\nsubroutine ok_{stem}(z)\n  integer, intent(out) :: z\n  z = 0\n'
                f'end subroutine ok_{stem}\n')
    if kind == 'bad':
        return f'subroutine bad_{stem}(x)\n  this is not fortran at all\nend subroutine bad_{stem}\n'
    raise ValueError(kind)


class GateHandler:
    """Conformance only: a handler that does nothing but wait at a gate.  Placed between the real handlers it
    pins the moment of every report append of every task on the real pool."""
    basedir = None

    def __init__(self, k):
        self.k = k

    def handle(self, file_report):
        vsched.gate_wait(f'{self.k}.{Path(file_report.filename).stem}')
        return None

    def output(self, handler_reports):
        pass


# ------------------------------------------------------------------------------------------
# running lint once
# ------------------------------------------------------------------------------------------
class _Capture(logging.Handler):
    def __init__(self):
        super().__init__(level=logging.WARNING)
        self.messages = []

    def emit(self, record):
        self.messages.append(record.getMessage())


_HOLDER = [None]
_PARSE_CACHE = {}


def _mk_executor(max_workers=None):
    return VirtualExecutor(_HOLDER[0], max_workers)


def _mk_manager():
    return VirtualManager(_HOLDER[0])


def _as_completed(fs, timeout=None):
    return _HOLDER[0].as_completed(fs, timeout)


def _namer(fn, args, kwargs, index):
    # ParallelQueue.call submits init_call(check_and_fix_file, path, linter, ...)
    return Path(args[1]).stem


def _cached_from_file(cls_from_file):
    def from_file(filename, *args, **kwargs):
        key = (str(filename), Path(filename).read_text(), repr(args), repr(sorted(kwargs.items())))
        hit = _PARSE_CACHE.get(key)
        if hit is None:
            try:
                hit = ('ok', cls_from_file(filename, *args, **kwargs))
            except Exception as e:  # pylint: disable=broad-except
                # keep only the exception itself: chained exceptions / tracebacks hold frames (f_back chain up to
                # lint_files) and with them the linter and its still unflushed output files
                e.__traceback__ = e.__context__ = e.__cause__ = None
                hit = ('exc', e)
            _PARSE_CACHE[key] = hit
        if hit[0] == 'exc':
            raise hit[1].with_traceback(None)
        return hit[1]
    return from_file


class Env:
    """One file set on disk."""

    def __init__(self, root, kinds, seed):
        self.root = Path(root)
        self.kinds = list(kinds)
        self.stems = STEM_POOLS[seed % len(STEM_POOLS)][:len(kinds)]
        self.src = self.root / 'src'
        self.out = self.root / 'out'

    def write(self):
        shutil.rmtree(self.root, ignore_errors=True)
        self.src.mkdir(parents=True)
        self.out.mkdir()
        for k, s in zip(self.kinds, self.stems):
            (self.src / f'{s}.F90').write_text(file_text(k, s))
        return self


def run_lint(env, cfgname, W, chooser=None, real_gates=None, cache=True):
    """One execution of lint over env.  chooser given: virtual pool/manager; real_gates: real pool with GateHandlers
    (list of gate indices is implied by the config).  Returns dict(count, error, default, violations, junit, sched)."""
    from loki.lint import lint_files
    from loki.lint.linter import Linter, lint_files_glob
    from loki.lint.reporter import (Reporter, DefaultHandler, JunitXmlHandler, ViolationFileHandler, LazyTextfile)
    from loki.logging import logger
    from loki.sourcefile import Sourcefile
    lmod = importlib.import_module('loki.lint.linter')
    wq = importlib.import_module('loki.jit_build.workqueue')
    rules = _rules()
    for f in os.listdir(env.out):
        os.unlink(env.out / f)
    jx, vf = env.out / 'junit.xml', env.out / 'violations.yml'
    config = dict(basedir=str(env.src), include=['*.F90'], max_workers=W)
    if 'junit' in CONFIGS[cfgname]:
        config['junitxml_file'] = str(jx)
    if 'violations' in CONFIGS[cfgname]:
        config['violations_file'] = str(vf)
    binds = []
    sched = None
    if chooser is not None:
        sched = Sched(chooser, vsched.thread_task_factory(_namer), 'eager')
        _HOLDER[0] = sched
        binds += [(lmod, 'Manager', _mk_manager), (lmod, 'as_completed', _as_completed),
                  (wq, 'ProcessPoolExecutor', _mk_executor), (wq, 'Manager', _mk_manager),
                  (wq, 'QueueListener', vsched.NoListener), (wq, '_initialized', True)]
    cap = _Capture()
    saved_handlers, saved_level = logger.handlers[:], logger.level
    logger.handlers[:] = [cap]
    logger.setLevel(logging.WARNING)
    orig_from_file = Sourcefile.__dict__['from_file']
    if cache and real_gates is None:
        Sourcefile.from_file = staticmethod(_cached_from_file(Sourcefile.from_file))
    count = error = None
    try:
        with vsched.rebound(*binds):
            try:
                if real_gates is None:
                    count = lint_files(rules, dict(config))
                else:
                    # same as lint_files, with a GateHandler in front of every real handler and one at the end
                    real = [DefaultHandler(basedir=config['basedir'])]
                    if 'junitxml_file' in config:
                        real.append(JunitXmlHandler(target=LazyTextfile(config['junitxml_file']).write,
                                                    basedir=config['basedir']))
                    if 'violations_file' in config:
                        real.append(ViolationFileHandler(target=LazyTextfile(config['violations_file']).write,
                                                         basedir=config['basedir'], use_line_hashes=True))
                    handlers = []
                    for k, h in enumerate(real):
                        handlers += [GateHandler(k), h]
                    handlers.append(GateHandler(len(real)))
                    linter = Linter(reporter=Reporter(handlers), rules=rules, config=dict(config))
                    count = lint_files_glob(linter, config['basedir'], config['include'], max_workers=W)
                    linter.reporter.output()
                    del linter, handlers, real
            except vsched.HarnessError:
                raise
            except Exception as e:  # pylint: disable=broad-except
                error = f'{type(e).__name__}: {e}'
            finally:
                if sched is not None:
                    sched.close()
    finally:
        Sourcefile.from_file = orig_from_file
        for hit in _PARSE_CACHE.values():
            if hit[0] == 'exc':
                hit[1].__traceback__ = None      # a cached exception must not keep the linter (and its open files) alive
        logger.handlers[:] = saved_handlers
        logger.setLevel(saved_level)

    def read(p, wanted):
        if not wanted:
            return None
        if not p.exists() or p.stat().st_size == 0:
            gc.collect()
        return p.read_text() if p.exists() else ''

    return dict(count=count, error=error, default=list(cap.messages),
                junit=read(jx, 'junitxml_file' in config), violations=read(vf, 'violations_file' in config), sched=sched)


# ------------------------------------------------------------------------------------------
# parsing the handler outputs back into per-file content
# ------------------------------------------------------------------------------------------
_DEFAULT_RE = re.compile(r'^(?P<rule>(?:\[[^\]]*\] )?\w+): (?P<file>[\w.]+)'
                         r'(?P<where>(?: \(l\. \d+\))?(?: in (?:routine|module) "[^"]*")?) - (?P<msg>.*)$', re.S)


def parse_default(messages):
    blocks = []          # [(file, [(rule, msg, where)...])] consecutive messages of one file = one block
    for m in messages:
        mm = _DEFAULT_RE.match(m)
        if not mm:
            continue
        item = (mm['rule'], mm['msg'], mm['where'])
        if blocks and blocks[-1][0] == mm['file']:
            blocks[-1][1].append(item)
        else:
            blocks.append((mm['file'], [item]))
    return blocks


def parse_violations(text):
    import yaml
    blocks = []
    cur = []
    for line in (text or '').splitlines():
        if line and not line[0].isspace() and cur:
            blocks.append('\n'.join(cur))
            cur = []
        if line.strip():
            cur.append(line)
    if cur:
        blocks.append('\n'.join(cur))
    out = []
    for b in blocks:
        d = yaml.safe_load(b)
        for fname, rep in d.items():
            items = []
            for r in rep.get('rules', []):
                if isinstance(r, dict):
                    for rule, hashes in r.items():
                        items += [(rule, 'violation', h) for h in hashes] or [(rule, 'violation', None)]
                else:
                    items.append((r, 'violation', None))
            out.append((fname, items))
    return out


def parse_junit(text):
    if not text:
        return []
    root = ET.fromstring(text)
    out = []
    for ts in root.iter('testsuite'):
        items = []
        for tc in ts.iter('testcase'):
            for fl in tc.iter('failure'):
                items.append((tc.get('name'), fl.get('message'), None))
        out.append((Path(ts.get('name')).name, items))
    return out


def observe(res):
    """handler -> ordered list of (file, sorted items)"""
    obs = {'default': [(f, sorted(map(repr, it))) for f, it in parse_default(res['default'])]}
    if res['violations'] is not None:
        obs['violations-file'] = [(f, sorted(map(repr, it))) for f, it in parse_violations(res['violations'])]
    if res['junit'] is not None:
        obs['junit'] = [(f, sorted(map(repr, it))) for f, it in parse_junit(res['junit'])]
    return obs


def per_file(blocks):
    d = collections.defaultdict(list)
    for f, items in blocks:
        d[f] += items
    return {f: sorted(v) for f, v in d.items()}


def judge(env, res, serial):
    """-> list of (signature, detail)"""
    out = []
    if res['error'] and not serial['error']:
        return [(f'parallel lint raises {res["error"].split(":")[0]} where the serial run succeeds', res['error'])]
    if res['error'] or serial['error']:
        return out
    if res['count'] != serial['count']:
        out.append(('checked-file count differs from the serial run', f'parallel {res["count"]} vs serial {serial["count"]}'))
    o, s = observe(res), observe(serial)
    for h in s:
        pf, sf = per_file(o.get(h, [])), per_file(s[h])
        files = [f for f, _ in o.get(h, [])]
        if h == 'junit':
            dup = sorted(f for f in set(files) if files.count(f) > 1)
            if dup:
                out.append((f'file reported more than once [{h}]', f'{dup}: suites {files}'))
            missing = sorted(set(f for f, _ in s[h]) - set(files))
            if missing:
                out.append((f'selected file not reported [{h}]', f'{missing}: suites {files}'))
        for f in sorted(set(pf) | set(sf)):
            a, b = pf.get(f, []), sf.get(f, [])
            if a != b:
                ca, cb = collections.Counter(a), collections.Counter(b)
                what = 'duplicated' if set(ca) == set(cb) and all(ca[k] >= cb[k] for k in cb) else \
                    'missing' if not (ca - cb) else 'extra' if not (cb - ca) else 'different'
                out.append((f'per-file violations differ from the serial run [{h}] ({what})',
                            f'{f}: parallel {a} vs serial {b}'))
                break
    return out


# ------------------------------------------------------------------------------------------
# exploring one (file set, config, W)
# ------------------------------------------------------------------------------------------
def class_key(trace):
    """interleaving class: order of appends per shared list + completion order"""
    per = collections.defaultdict(list)
    for label, task in trace:
        per[label].append(task)
    return tuple(sorted((k, tuple(v)) for k, v in per.items()))


def explore_case(env, cfgname, W, serial, prefix=(), want_classes=False):
    ex = Explorer(prefix=prefix)
    found = {}
    classes = {}
    info = dict(overlap=0, first=None, orders=set())

    def run(ch):
        r = run_lint(env, cfgname, W, ch)
        s = r['sched']
        info['overlap'] = max(info['overlap'], s.overlap)
        for sig, det in judge(env, r, serial):
            if sig not in found:
                found[sig] = (dict(kinds=env.kinds, config=cfgname, W=W, schedule=[list(c) for c in s.choices]), det)
        key = tuple(s.trace)
        if want_classes:
            classes.setdefault(class_key(s.trace), [list(e) for e in s.trace])
        o = observe(r)
        info['orders'].add(tuple((h, tuple(f for f, _ in o[h])) for h in sorted(o)))
        if info['first'] is None:
            info['first'] = dict(schedule=[list(c) for c in s.choices])
        return key

    ex.explore(run)
    st = ex.stats()
    st.update(overlap=info['overlap'], first=info['first'], output_orders=len(info['orders']))
    if prefix:     # one sub-tree of a split search: the caller has to union the state graphs of the sub-trees
        st.update(state_set=list(ex.states), edge_set=list(ex.edges))
    return st, [(sig, case, det) for sig, (case, det) in found.items()], list(classes.values())


# ------------------------------------------------------------------------------------------
# forcing an interleaving on the real pool + real Manager
# ------------------------------------------------------------------------------------------
def real_forced(env, cfgname, W, trace, assigned_after, model, tag, timeout=45.0):
    """trace: [(label, stem)] with label 'append:L<k>' / 'complete'.  Returns None or a description of the disagreement."""
    nh = 1 + len(CONFIGS[cfgname])
    ctl = str(env.root / f'ctl_{tag}')
    shutil.rmtree(ctl, ignore_errors=True)
    log_fd = vsched.make_gate_dir(ctl, [f'{k}.{s}' for s in env.stems for k in range(nh + 1)])
    steps = []
    for label, stem in trace:
        if label == 'complete':
            steps.append(dict(gate=f'{nh}.{stem}', confirm=None))
        else:
            k = int(label.split(':L')[1])
            steps.append(dict(gate=f'{k}.{stem}', confirm=f'at {k + 1}.{stem}'))
    pid, result_path = vsched.fork_controller(ctl, log_fd, steps, timeout)
    os.environ[vsched.GATE_ENV] = ctl
    try:
        r = run_lint(env, cfgname, W, real_gates=True)
    finally:
        os.environ.pop(vsched.GATE_ENV, None)
        res = vsched.join_controller(pid, result_path, [log_fd])
    shutil.rmtree(ctl, ignore_errors=True)
    if not res['ok']:
        return f'interleaving not realisable on the real pool: {res["error"]}'
    if r['error']:
        return f'real lint run failed: {r["error"]}'
    k = 0
    for line in res['log']:
        if line.startswith('>> '):
            k += 1
        elif line.startswith('at 0.'):
            stem = line[len('at 0.'):]
            if stem not in assigned_after[min(k, len(assigned_after) - 1)]:
                return (f'real pool handed out {stem} after {k} events, the model only has '
                        f'{assigned_after[min(k, len(assigned_after) - 1)]} handed out then (log {res["log"]})')
    if r['count'] != model['count']:
        return f'real checked count {r["count"]}, model {model["count"]}'
    o = observe(r)
    # violations file / JUnit: the order of blocks is the order of the appends to that handler's list, which the model
    # predicts.  Default handler: messages travel through the log queue at handle() time - not modelled - so only the
    # per-file content is compared.
    o['default'], want = per_file(o['default']), dict(model['obs'])
    want['default'] = per_file(want['default'])
    if o != want:
        return f'real outputs (ordered blocks per handler list, default handler per file) {o} differ from the model\'s {want}'
    return None


# ------------------------------------------------------------------------------------------
# work units
# ------------------------------------------------------------------------------------------
def _env_for(item, tag):
    return Env(Path(item['scratch']) / f'{tag}{item["uid"]}', item['kinds'], item['seed']).write()


def _unit_split(item):
    env = _env_for(item, 's')
    try:
        serial = run_lint(env, item['cfg'], 1)
        return vsched.split_prefixes(lambda ch: run_lint(env, item['cfg'], item['W'], ch) and 0, item['split'])
    finally:
        shutil.rmtree(env.root, ignore_errors=True)


def _unit_explore(item):
    env = _env_for(item, 'e')
    try:
        serial = run_lint(env, item['cfg'], 1)
        if serial['error']:
            return dict(uid=item['uid'], serial_error=serial['error'])
        pre = [tuple(tuple(x) if isinstance(x, list) else x for x in p) for p in (item.get('prefix') or [])]
        st, viols, classes = explore_case(env, item['cfg'], item['W'], serial, prefix=pre,
                                          want_classes=item.get('want_classes', False))
        # lint_files glue == plain serial reference, and the un-cached serial run agrees with the cached one
        extra = None
        if not item.get('prefix'):
            s2 = run_lint(env, item['cfg'], 1, cache=False)
            if observe(s2) != observe(serial) or s2['count'] != serial['count']:
                extra = f'serial run with and without parse cache differ: {observe(s2)} vs {observe(serial)}'
        if 'junit' in CONFIGS[item['cfg']] and not item.get('prefix'):
            suites = sorted(f for f, _ in observe(serial)['junit'])
            if suites != sorted(f'{s}.F90' for s in env.stems):
                viols.append(('serial run does not report every selected file exactly once [junit]',
                              dict(kinds=env.kinds, config=item['cfg'], W=1, schedule=[]), f'suites {suites}'))
        return dict(uid=item['uid'], stats=st, viols=viols, classes=classes, serial_count=serial['count'],
                    serial_obs=observe(serial), harness=extra, serial_error=None)
    finally:
        shutil.rmtree(env.root, ignore_errors=True)


def _unit_real(item):
    vsched.undaemonize()
    env = _env_for(item, 'r')
    try:
        trace = [tuple(e) for e in item['trace']]
        m = run_lint(env, item['cfg'], item['W'], FixedChooser(trace))
        s = m['sched']
        if [tuple(e) for e in s.trace] != trace:
            return dict(uid=item['uid'], bad=f'model replay of {trace} gave {s.trace}')
        with vsched.real_slot(item['scratch'], item.get('slots', 1)):
            for attempt in (1, 2):
                bad = real_forced(env, item['cfg'], item['W'], trace, s.assigned_after,
                                  dict(count=m['count'], obs=observe(m)), f'{item["uid"]}_{attempt}', timeout=45.0 * attempt)
                if not bad or 'not realisable' not in bad:
                    break       # a time-out on an overloaded machine gets one more chance with doubled time-outs
        return dict(uid=item['uid'], bad=bad)
    finally:
        shutil.rmtree(env.root, ignore_errors=True)


def _freeze(x):
    return tuple(_freeze(y) for y in x) if isinstance(x, (list, tuple)) else x


def file_sets(n, sequences):
    if sequences:
        return [list(k) for k in itertools.product(KINDS, repeat=n)]
    return [list(k) for k in itertools.combinations_with_replacement(KINDS, n)]


def run(ctx):
    from vf.explore import seeded_order
    scratch = str(ctx.scratch)
    slots = max(1, ctx.nproc // 2 if ctx.nproc <= 4 else ctx.nproc // 4)    # real-pool runs alive at the same time (each: manager + W workers + controller + participants)
    quick = ctx.quick
    cases = []       # (kinds, cfg, W, split_depth)
    for n in (1, 2, 3):
        for kinds in file_sets(n, sequences=(n <= 2)):
            for cfg in ('D', 'DV', 'DJ'):
                for W in (2, 3):
                    cases.append((kinds, cfg, W, 0))
    if not quick:
        multisets3 = file_sets(3, sequences=False)
        for kinds in file_sets(3, sequences=True):
            if kinds not in multisets3:
                cases.append((kinds, 'D', 2, 0))       # every *sequence* of 3 kinds with the default handler
                cases.append((kinds, 'D', 3, 0))
        for kinds in file_sets(2, sequences=True):
            cases.append((kinds, 'DJV', 2, 0))          # all three handlers
        cases.append((['one', 'several', 'bad'], 'DJV', 2, 0))
        for kinds in file_sets(4, sequences=False):
            cases.append((kinds, 'D', 2, 0))            # 4 files
        cases.append((['clean', 'one', 'several', 'bad'], 'D', 3, 0))
    # conformance on the real pool: (file set, handler config, W) triples - kept small on purpose: every real-pool run
    # keeps a manager, W workers, a controller and the pool machinery alive
    conf = [(['several', 'bad'], 'D', 2), (['bad', 'one'], 'DV', 2), (['clean', 'several'], 'DJ', 2),
            (['one', 'several', 'bad'], 'D', 3)]
    if not quick:
        conf += [(['one', 'several', 'bad'], 'D', 2), (['one', 'several', 'bad'], 'DV', 2), (['bad', 'one'], 'DJV', 2)]
    ctx.require(all(any((c[0], c[1], c[2]) == k for c in cases) for k in conf), 'conformance case is not among the explored cases')
    # split the big searches into independent sub-trees
    split_items = [dict(uid=k, kinds=c[0], cfg=c[1], W=c[2], split=c[3], seed=ctx.seed, scratch=scratch)
                   for k, c in enumerate(cases) if c[3]]
    t0 = time.time()
    prefixes = ctx.pmap(_unit_split, split_items, chunksize=1)
    units = []
    pi = iter(prefixes)
    for ci, (kinds, cfg, W, split) in enumerate(cases):
        want = (kinds, cfg, W) in conf
        if split:
            for p in next(pi):
                units.append(dict(case=ci, kinds=kinds, cfg=cfg, W=W, prefix=[list(x) for x in p], seed=ctx.seed,
                                  scratch=scratch, want_classes=False))
        else:
            units.append(dict(case=ci, kinds=kinds, cfg=cfg, W=W, prefix=None, seed=ctx.seed, scratch=scratch,
                              want_classes=want))
    units = seeded_order(units, ctx.seed)
    for k, u in enumerate(units):
        u['uid'] = k
    results = ctx.pmap(_unit_explore, units, chunksize=1)
    t_explore = time.time() - t0

    schedules = traces = states = transitions = depth = 0
    overlap = collections.Counter()
    out_orders = 0
    per_case = collections.defaultdict(lambda: dict(schedules=0))
    real_items = []
    samples = []
    serial_runs = 0
    for u, r in zip(units, results):
        ctx.require(not r.get('serial_error'), f'serial lint run failed on {u["kinds"]}: {r.get("serial_error")}')
        ctx.require(not r.get('harness'), r.get('harness'))
        for sig, case, det in r['viols']:
            ctx.violation(sig, dict(case, seed=ctx.seed), det)
        st = r['stats']
        serial_runs += 1 if u['prefix'] else 2      # cached reference run (+ the un-cached one)
        schedules += st['schedules']
        traces += st['distinct_traces']
        if 'state_set' in st:
            per_case[u['case']].setdefault('S', set()).update(map(_freeze, st['state_set']))
            per_case[u['case']].setdefault('E', set()).update(map(_freeze, st['edge_set']))
        else:
            states += st['states']
            transitions += st['transitions']
        depth = max(depth, st['max_choice_depth'])
        overlap[u['W']] = max(overlap[u['W']], st['overlap'])
        out_orders = max(out_orders, st['output_orders'])
        per_case[u['case']]['schedules'] += st['schedules']
        if len(samples) < 2 and st['schedules'] > 50 and u['prefix'] is None:
            samples.append(dict(files=u['kinds'], handlers=u['cfg'], W=u['W'], schedules=st['schedules'],
                                first_schedule=st['first']['schedule'], serial=r['serial_obs']))
        for tr in r['classes']:
            real_items.append(dict(kinds=u['kinds'], cfg=u['cfg'], W=u['W'], trace=tr, seed=ctx.seed, scratch=scratch))
    for v in per_case.values():
        states += len(v.get('S', ()))
        transitions += len(v.get('E', ()))
    for k, it in enumerate(real_items):
        it['uid'] = k
        it['slots'] = slots
    dev_skip = os.environ.get('VF_DEV_SKIP_REAL')      # development only: the run then ends as HARNESS-ERROR
    if dev_skip:
        print(f'DEV: explore {t_explore:.1f}s units={len(units)} cases={len(cases)} schedules={schedules} traces={traces} '
              f'states={states} transitions={transitions} depth={depth} real_items={len(real_items)} '
              f'violations={len(ctx.violations)} sigs={sorted(set(v[0] for v in ctx.violations))} '
              f'max_case={max(v["schedules"] for v in per_case.values())}')
        real_items = real_items[:int(dev_skip)]
    t0 = time.time()
    real_res = ctx.pmap(_unit_real, real_items, chunksize=1)
    t_real = time.time() - t0
    bad = [(it, r['bad']) for it, r in zip(real_items, real_res) if r['bad']]
    ctx.require(not bad, f'{len(bad)} of {len(real_items)} interleavings: real pool/manager does not conform to the model; first: '
                         f'{bad[0][0]["kinds"] if bad else None} {bad[0][0]["cfg"] if bad else None} W={bad[0][0]["W"] if bad else None} '
                         f'trace={bad[0][0]["trace"] if bad else None}: {bad[0][1] if bad else None}')
    ctx.require(not dev_skip, f'development run (VF_DEV_SKIP_REAL): real {t_real:.1f}s')

    ctx.require(overlap[2] == 2 and overlap[3] == 3, f'no execution ever had W tasks in flight: {dict(overlap)}')
    ctx.require(out_orders >= 2, 'the order of report blocks never varied: interleavings have no observable effect')
    ctx.require(real_items, 'no interleaving was replayed on the real pool')

    nser = len(cases)
    ctx.cov.update(
        states=states, transitions=transitions, traces_validated_against_impl=len(real_items),
        evaluations=schedules + serial_runs, distinct_nontrivial=traces, exhaustive=True,
        schedules_explored=schedules, distinct_traces=traces, max_choice_depth=depth, cases=len(cases),
        serial_reference_runs=serial_runs, largest_case_schedules=max(v['schedules'] for v in per_case.values()),
        conformance=dict(real_pool_interleavings=len(real_items),
                         selection=f'(file set, handlers, W) in {conf}: one interleaving per class (order of appends per handler '
                                   'list + completion order), forced through GateHandlers; ordered handler outputs and checked count '
                                   'must equal the model\'s prediction for that interleaving'),
        wall=dict(explore=round(t_explore, 1), real_pool=round(t_real, 1)),
        rule='cases = file sets (every sequence of kinds for <=2 files, every multiset' +
             ' for 3 files' + ('' if quick else '; every sequence of 3 files with the default handler; every multiset of 4 files with '
                               'the default handler on 2 workers and one all-kinds set of 4 on 3 workers; every sequence of 2 files and '
                               'one set of 3 with all three handlers on 2 workers') +
             ') x handler configs (D default, V violations file, J JUnit) x W in {2,3}, each against its own W=1 run; per case a DFS over '
             'every interleaving of "append to handler list k" and "task complete" events; distinct_nontrivial = distinct '
             'event sequences summed over cases; states/transitions = distinct (main position, pool state) and (state, event) pairs',
        bound=dict(files=3 if quick else 4, workers=[1, 2, 3], handlers=sorted(set(c[1] for c in cases))),
        samples=samples or [dict(note='no sample')],
    )
    ctx.assumptions += [
        'scheduling points = list operations on manager objects performed by tasks + completion of the task future; between them a '
        'task touches only its own (pickled) copies',
        'tasks start as soon as a worker is free (their pre-report work is local), FIFO hand-out',
        'parse results are cached across executions of the virtual pool (Sourcefile.from_file is a pure function of the file); '
        'every case is also run once serially without the cache and compared',
        'log funnelling through the manager queue is not modelled: DefaultHandler messages are captured from the logger directly',
        'per-file comparison only: order of blocks in any output is not demanded',
    ]


def replay(case):
    import tempfile
    root = Path(tempfile.mkdtemp(prefix='vf_c42_replay_', dir='/dev/shm' if os.path.isdir('/dev/shm') else None))
    try:
        env = Env(root / 'e', case['kinds'], case.get('seed', 0)).write()
        serial = run_lint(env, case['config'], 1)
        if case['W'] == 1:
            suites = sorted(f for f, _ in observe(serial).get('junit', []))
            return None if suites == sorted(f'{s}.F90' for s in env.stems) else f'serial JUnit suites {suites}'
        r = run_lint(env, case['config'], case['W'], FixedChooser([tuple(c) for c in case['schedule']]))
        v = judge(env, r, serial)
        return '; '.join(f'{s}: {d}' for s, d in v) or None
    finally:
        shutil.rmtree(root, ignore_errors=True)
