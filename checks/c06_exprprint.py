"""C06  Printed expressions denote the expression tree they were printed from (fgen and cgen).

ENUM.  Space: every well-typed expression tree (integer / real / logical grammar of vf.exprgen: n-ary
sums and products of 2-3 children, quotients, powers, unary minus as Product((-1, x)), six comparisons,
.and./.or./.not., every arithmetic operator as plain *and* as Parenthesised* node; leaves 2 variables +
2 literals per type incl. a negative IntLiteral) with at most N operator nodes, one representative per
variable renaming, smallest first -- plus (thorough) trees produced by Loki itself: one
SubstituteExpressions step (variable <- one-operator tree) and simplify() of enumerated trees.

Oracle, per tree and backend:  value of the tree (vf.exprsem.treeeval: exact integers with truncating
division, exact rationals) == value of the emitted text (vf.exprsem.texteval / ctexteval) on the
*complete* product grid of the value pools; every emitted text is also compiled and run by gfortran /
gcc on every valuation where all intermediates are in range and exactly representable, and must agree
with the text evaluator there (conformance of the text model; a disagreement is a HARNESS-ERROR, never
a verdict).  What counts as a violation:
  value    the text is accepted but denotes another value than the tree for some valuation
  nonstd   (Fortran) the text needs the non-standard "unary sign directly after an operator" form
           (`a*-b`, `a + -3`, `a**-b`, `--a`): standard Fortran has no such expression, gfortran
           -std=f2008 rejects it; the statement requires parentheses "wherever the tree requires them"
  reject   the compiler rejects the text outright (e.g. C `--a`)
  error    the backend raised while printing a tree of the alphabet
Weaker readings taken: a valuation where the tree itself is undefined (zero divisor, 0**negative,
32-bit overflow) is skipped; integer-typed trees containing a Power are not judged for cgen (C has no
integer power: `pow()` is a double function, that is a typing question and not one of parenthesisation).
"""
from vf import exprgen as G
from vf import exprbatch as B
from vf.explore import seeded_order

PROPERTY = 'C06'
LEVEL = 'exploration'
META = dict(
    engine='enum',
    technique='bounded-exhaustive typed expression-tree enumeration; exact tree evaluator vs text evaluator on a '
              'complete valuation grid; every emitted text cross-run through gfortran/gcc',
    level_text='every integer/real/logical expression tree with <= N operator nodes (plain and Parenthesised* forms, '
               'n-ary sums/products, unary minus, negative literals; quick N=2, thorough N=3 on a reduced leaf '
               'alphabet + substitution/simplify closure): fgen and cgen text evaluates to the tree value on the full grid',
    level_note='exact reference evaluators (vf.exprsem) bound to gfortran 12 / gcc 12 by compiling every emitted text; '
               'no claim beyond the operator bound, the leaf alphabet and the value pools',
)

TYPENAME = {'i': 'int', 'r': 'real', 'l': 'logical'}
POOLS = {'i': G.INT_POOL, 'r': G.REAL_POOL, 'l': G.LOG_POOL}
CHUNK = 400
_NAMES = G.CANON_NAMES
_CFG = dict(G.DEFAULT_CFG)


def _silence():
    import logging
    logging.disable(logging.CRITICAL)
    try:
        import loki.logging as ll
        ll.set_log_level('ERROR')
    except Exception:  # pylint: disable=broad-except
        pass


# ------------------------------------------------------------------ judging one tree
def has_int_pow(s):
    for _, x in G.positions(s):
        if G.BASE.get(x[0], x[0]) == 'pow' and G.typeof(x) == 'i':
            return True
    return False


_GEN = {}
_GEN_CHECKED = {'fgen': 0, 'cgen': 0}


def _generator(backend):
    """fgen(e) / cgen(e) build a fresh code generator per call (1.7 ms of introspection each); the same
    generator classes are instantiated once per process here, exactly as those entry points do, and the
    first calls are compared against the entry points themselves."""
    if backend not in _GEN:
        try:
            if backend == 'fgen':
                from loki.backend.fgen import FortranCodegen
                from loki.backend.style import FortranStyle
                _GEN[backend] = FortranCodegen(style=FortranStyle(), depth=0)
            else:
                from loki.backend.cgen import CCodegen
                from loki.backend.style import DefaultStyle
                _GEN[backend] = CCodegen(style=DefaultStyle(), depth=0)
        except Exception:  # pylint: disable=broad-except
            _GEN[backend] = None
    return _GEN[backend]


def emit(expr, backend):
    """-> (text, None) | (None, 'ExcType: msg')"""
    from loki import fgen, cgen
    entry = fgen if backend == 'fgen' else cgen
    gen = _generator(backend)
    try:
        if gen is None:
            t = entry(expr)
        else:
            t = gen.visit(expr) or ''
            if _GEN_CHECKED[backend] < 50:
                _GEN_CHECKED[backend] += 1
                if t != entry(expr):
                    _GEN[backend] = None
                    t = entry(expr)
    except Exception as ex:  # pylint: disable=broad-except
        return None, f'{type(ex).__name__}: {ex}'
    if not isinstance(t, str):
        return None, f'non-string result {t!r}'
    return t, None


def tree_values(expr, spec, names):
    """[(valuation, env, value | 'U' | 'R')] over the complete grid (computed once per tree)."""
    out = []
    for val in G.grid(G.variables(spec), POOLS):
        env = G.env_of(val, names)
        tv, _ = G.tree_value(expr, env)
        if isinstance(tv, str) and tv == G.NOPARSE:
            raise RuntimeError(f'reference tree evaluator cannot evaluate {G.show(spec)}')
        out.append((val, env, tv))
    return out


def shape_of(X):
    """Token-kind shape of a text: every identifier and every unsigned literal becomes the atom A;
    signs, operators, parentheses and function names are kept.  Two texts of the same shape are parsed
    alike by any grammar-driven parser."""
    if X.toks is None:
        return None
    out = []
    for k, v in X.toks:
        if k in ('int', 'real'):
            out.append('A')
        elif k == 'name':
            out.append(v if v == 'pow' else 'A')
        elif k == 'dotop' and v.lower().startswith(('.true.', '.false.')):
            out.append('A')
        else:
            out.append(v)
    return ' '.join(out)


def judge(expr, spec, backend, names, tvals=None):
    """Judge one tree for one backend.
    -> dict(kind=None|'value'|'nonstd'|'reject'|'error', text, detail, mask, model=[expected repr per mask bit],
            nonstd=bool, ndistinct=int, shape)"""
    if backend == 'cgen' and has_int_pow(spec):
        return dict(kind=None, skipped='int-pow', text=None)
    text, err = emit(expr, backend)
    if text is None:
        return dict(kind='error', text=None, detail=f'{backend} raised {err}', what=err.split(':')[0])
    vs = G.variables(spec)
    T = G.typeof(spec)
    X = G.FText(text) if backend == 'fgen' else G.CText(text)
    nonstd = backend == 'fgen' and X.nonstd
    mask, model = [], []
    bad = None
    seen_vals = set()
    unparse = X.toks is None
    if tvals is None:
        tvals = tree_values(expr, spec, names)
    for val, env, tv in tvals:
        if unparse:
            xv, exact = G.NOPARSE, False
        else:
            xv, exact = X.value(env)
        xbad = isinstance(xv, str)
        if xbad and xv == G.NOPARSE:
            unparse = True
        if not xbad and exact:
            mask.append('1')
            model.append(B.expected_repr(xv))
        else:
            mask.append('0')
        if isinstance(tv, str):
            continue                      # the tree has no defined value here: nothing is demanded
        seen_vals.add(tv)
        if xbad:
            if xv == G.UNDEF and bad is None:
                bad = (val, tv, 'undefined (zero divisor)')
            continue
        if bad is None and not G.same_value(tv, xv):
            bad = (val, tv, xv)
    out = dict(text=text, mask=''.join(mask), model=model, nonstd=nonstd, ndistinct=len(seen_vals),
               rtype=T, vars=[(names[t][k], t) for t, k in vs], kind=None, shape=shape_of(X))
    if unparse:
        # claim to be confirmed by the compiler on every valuation slot: it must not compile
        out.update(kind='reject', mask='1' * len(mask), model=None,
                   detail=f'{backend} text {text!r} is not an expression of the target language '
                          f'(tree {G.show(spec, names)})')
    elif bad is not None:
        val, tv, xv = bad
        out.update(kind='value', detail=f'{backend}({G.show(spec, names)}) = {text!r}: tree value {tv}, text value {xv} '
                                        f'at {G.env_of(val, names)}')
    elif nonstd:
        out.update(kind='nonstd', detail=f'{backend}({G.show(spec, names)}) = {text!r}: a sign directly follows an '
                                         'operator; not a standard Fortran expression (gfortran -std=f2008: error)')
    return out


_KIND_MEMO = {}
_CORE_MEMO = {}


def kind_of(spec, backend):
    k = (G.key(spec), backend)
    if k not in _KIND_MEMO:
        try:
            r = judge(G.build(spec, _NAMES), spec, backend, _NAMES)
            kind = r['kind']
            if kind == 'error':
                kind = 'error:' + r['what']
        except Exception:  # pylint: disable=broad-except
            kind = None
        _KIND_MEMO[k] = kind
    return _KIND_MEMO[k]


def signature(spec, backend):
    """Shrink to a minimal core failing the same way; the core's constructor text, the emitted text and
    the failure kind are the signature."""
    memo = _CORE_MEMO.setdefault(backend, {})
    core = G.shrink_core(spec, lambda s: kind_of(s, backend), memo, _CFG)
    kind = kind_of(core, backend)
    text, err = emit(G.build(core, _NAMES), backend)
    shown = f'"{text}"' if text is not None else f'<{err.split(":")[0]}>'
    return f'{backend} {TYPENAME[G.typeof(core)]} {G.show(core)} -> {shown} ({kind})', core


# ------------------------------------------------------------------ work items
def realise(item, names):
    """item -> (Loki expression, spec of that expression).  Items:
    {'tree': spec}                                   the tree itself
    {'tree': spec, 'subst': [T,k], 'by': spec}       SubstituteExpressionsMapper({var: by})(tree)
    {'tree': spec, 'simplify': True}                 simplify(tree)"""
    expr = G.build(item['tree'], names)
    if 'subst' in item:
        from loki.expression.mappers import SubstituteExpressionsMapper
        T, k = item['subst']
        var = G.build(['v', T, k], names)
        expr = SubstituteExpressionsMapper({var: G.build(item['by'], names)})(expr)
        return expr, G.from_loki(expr, names)
    if item.get('simplify'):
        from loki.expression.symbolic import simplify
        expr = simplify(expr)
        return expr, G.from_loki(expr, names)
    return expr, item['tree']


def work(arg):
    """Phase 1, one chunk: judge every item for both backends; collect the emitted texts (one record per
    dedup key: the text itself in thorough, its token shape in quick)."""
    _silence()
    items, names, backends, name_seed, by_shape = arg
    res = dict(n=0, judged={b: 0 for b in backends}, nontrivial=0, viol=[], skipped_intpow=0, refused=0,
               derived_changed=0, recs={b: {} for b in backends}, texts={b: set() for b in backends})
    for item in items:
        res['n'] += 1
        try:
            expr, spec = realise(item, names)
        except Exception as ex:  # pylint: disable=broad-except
            # only possible for derived trees: simplify/substitution raised, or the result is outside
            # the harness alphabet -- there is no tree to print, nothing to judge for this property
            if 'subst' not in item and not item.get('simplify'):
                raise
            res['refused'] += 1
            if len(res.setdefault('refused_samples', [])) < 3:
                res['refused_samples'].append(f'{G.show(item["tree"])}: {type(ex).__name__}: {ex}')
            continue
        if ('subst' in item or item.get('simplify')) and spec != item['tree']:
            res['derived_changed'] += 1
        nontriv = False
        tvals = tree_values(expr, spec, names)
        for b in backends:
            r = judge(expr, spec, b, names, tvals)
            if r.get('skipped'):
                res['skipped_intpow'] += 1
                continue
            res['judged'][b] += 1
            if r.get('ndistinct', 0) >= 2:
                nontriv = True
            if r['text'] is not None:
                vt = tuple(r['vars'])
                res['texts'][b].add(hash((r['text'], vt)))
                if by_shape and r['kind'] != 'reject' and r['shape'] is not None:
                    key = ('s', r['shape'], r['rtype'])
                else:
                    key = ('t', r['text'], vt)
                old = res['recs'][b].get(key)
                # representative of a shape: the text with the most compiled valuations
                if old is None or (r['mask'].count('1') > old['mask'].count('1')):
                    res['recs'][b][key] = dict(text=r['text'], rtype=r['rtype'], vars=r['vars'], mask=r['mask'],
                                               model=r['model'], nonstd=r['nonstd'], kind=r['kind'],
                                               tree=G.show(spec, names))
            if r['kind'] is not None:
                sig, _core = signature(spec, b)
                case = dict(item)
                case.update(backend=b, names_seed=name_seed)
                res['viol'].append((sig, case, r['detail']))
        if nontriv:
            res['nontrivial'] += 1
    return res


def compile_work(arg):
    """Phase 2, one chunk of text records of one backend: compile, run, compare with the text model."""
    b, recs, scratch = arg
    res = dict(compiled=0, conf_checked=0, conf_err=[], nonstd_confirmed=0, reject_confirmed=0)
    for n, r in enumerate(recs):
        r['id'] = n
    if b == 'fgen':
        # texts the model calls standard must compile as Fortran 2008; the others are compiled with
        # gfortran's extensions for their value and must be *rejected* by -std=f2008
        std_recs = [r for r in recs if not r['nonstd']]
        ext_recs = [r for r in recs if r['nonstd']]
        got = B.eval_fortran(std_recs, POOLS, base=scratch, std='f2008')
        got.update(B.eval_fortran(ext_recs, POOLS, base=scratch, std='gnu'))
        rej = B.fortran_rejected([r for r in ext_recs if '1' in r['mask']], POOLS, base=scratch, std='f2008')
    else:
        got = B.eval_c(recs, POOLS, base=scratch)
        rej = {}
    for r in recs:
        g = got.get(r['id'])
        has = '1' in r['mask'] and len(r['vars']) <= B.MAXVARS
        if not has:
            continue
        res['compiled'] += 1
        if r['kind'] == 'reject':
            # model: not an expression of the language -> the compiler must reject it too
            if isinstance(g, tuple) and g[0] == 'ERR' and g[1].startswith('compile:'):
                res['reject_confirmed'] += 1
            else:
                res['conf_err'].append(f'{b} text {r["text"]!r}: reference evaluator rejects it, compiler gives {g}')
            continue
        if isinstance(g, tuple) or g is None:
            res['conf_err'].append(f'{b} text {r["text"]!r} (tree {r["tree"]}): compiler: {g}')
            continue
        if g != r['model']:
            res['conf_err'].append(f'{b} text {r["text"]!r}: compiler {g[:8]} vs reference evaluator {r["model"][:8]} '
                                   f'(mask {r["mask"][:40]})')
            continue
        res['conf_checked'] += len(g)
        if b == 'fgen' and r['nonstd']:
            if 'Extension' in rej.get(r['id'], ''):
                res['nonstd_confirmed'] += 1
            else:
                res['conf_err'].append(f'fgen text {r["text"]!r}: model says non-standard, gfortran -std=f2008 says '
                                       f'{rej.get(r["id"], "nothing")}')
    res['conf_err'] = res['conf_err'][:20]
    return res


# ------------------------------------------------------------------ space
RED = dict(int_lits=(-3,), real_lits=('0.5',), log_lits=(True,))


def space(ctx):
    """List of work items, smallest first, and the bound description.
    quick:    <= 1 operator (2- and 3-child nodes), 2 operators with binary nodes, full leaf alphabet;
              3 operators of which >= 1 is a unary minus (subtraction forms), reduced alphabet
    thorough: <= 2 operators (binary nodes on the full alphabet, 2-3 child nodes on the reduced alphabet);
              3 operators (int/real, plain binary nodes + unary minus) on the reduced alphabet;
              closure under SubstituteExpressionsMapper and simplify"""
    items = []
    full = G.Enumerator(_CFG)
    plain = G.Enumerator(dict(_CFG, forms=('plain',)))
    bound = dict(full_alphabet='2 variables + 2 literals per type (int 2, -3; real 0.5, 2.0; logical both)',
                 reduced_alphabet='2 variables + 1 literal per type (int -3; real 0.5; .true.)',
                 forms='plain + Parenthesised*', arities=[2, 3], backends=['fgen', 'cgen'])
    if ctx.quick:
        for n in (0, 1):
            for T in 'irl':
                items += [{'tree': t} for t in full.exactly(T, n)]
        binary = G.Enumerator(dict(_CFG, arities=(2,)))
        for T in 'irl':
            items += [{'tree': t} for t in binary.exactly(T, 2)]
        # subtraction / sign forms need 3 nodes (a - (b + c) = Sum(a, Product(-1, Sum(b, c)))): every 3-operator tree
        # with at least one unary minus, plain binary nodes, reduced alphabet
        red3 = G.Enumerator(dict(_CFG, forms=('plain',), arities=(2,), **RED))
        nneg = 0
        for T in 'ir':
            for t in red3.exactly(T, 3):
                if G.count_heads(t, ('neg',)):
                    items.append({'tree': t})
                    nneg += 1
        bound.update(max_operator_nodes=2, two_operator_trees='binary nodes only (3-child sums/products with <= 1 operator)',
                     three_operator_trees_with_unary_minus=nneg,
                     three_operator_alphabet='integer and real trees, reduced alphabet, plain binary nodes, >= 1 unary minus')
        plain = G.Enumerator(dict(_CFG, forms=('plain',), arities=(2,)))
        sub_types, sub_hosts, sim_sizes = 'ir', plain, (1,)
    else:
        for n in (0, 1):
            for T in 'irl':
                items += [{'tree': t} for t in full.exactly(T, n)]
        binary = G.Enumerator(dict(_CFG, arities=(2,)))
        red = G.Enumerator(dict(_CFG, **RED))
        seen = set()
        n2 = 0
        for T in 'irl':
            for t in binary.exactly(T, 2) + red.exactly(T, 2):
                k = G.key(t)
                if k not in seen:
                    seen.add(k)
                    items.append({'tree': t})
                    n2 += 1
        red3 = G.Enumerator(dict(_CFG, forms=('plain',), arities=(2,), **RED))
        n3 = 0
        for T in 'ir':
            ts = red3.exactly(T, 3)
            n3 += len(ts)
            items += [{'tree': t} for t in ts]
        bound.update(max_operator_nodes=2, two_operator_trees=n2,
                     two_operator_alphabet='binary nodes on the full alphabet + 2-3 child nodes on the reduced alphabet',
                     three_operator_trees=n3,
                     three_operator_alphabet='integer and real trees, reduced alphabet, plain binary nodes + unary minus')
        plain = G.Enumerator(dict(_CFG, forms=('plain',), arities=(2,)))
        sub_types, sub_hosts, sim_sizes = 'ir', G.Enumerator(dict(_CFG, arities=(2,))), (1, 2)
    # flattened signed products Product((-1, x, y[, z])) and half-integral powers of perfect squares (both tiers)
    nmp = nsq = 0
    for T in 'ir':
        for t in G.minus_products(T, _CFG):
            items.append({'tree': t})
            nmp += 1
    for t in G.sqrt_powers(_CFG):
        items.append({'tree': t})
        nsq += 1
    bound.update(flattened_minus_products=nmp, half_integral_powers_of_perfect_squares=nsq)
    # closure under Loki's own tree builders (the statement names substitution and simplification)
    nsub = nsim = 0
    for T in sub_types:
        hosts = [t for t in sub_hosts.exactly(T, 1) if (T, 0) in G.variables(t)]
        for h in hosts:
            for r in plain.exactly(T, 1):
                items.append({'tree': h, 'subst': [T, 0], 'by': r})
                nsub += 1
    for T in 'irl':
        for n in sim_sizes:
            for t in plain.exactly(T, n):
                items.append({'tree': t, 'simplify': True})
                nsim += 1
    bound.update(substitution_items=nsub, simplify_items=nsim)
    return items, bound


_IN_RUN = False


def run(ctx):
    global _IN_RUN  # pylint: disable=global-statement
    _IN_RUN = True      # replays issued by the runner right after run(): their texts were just compiled in phase 2
    _silence()
    names = G.names_for_seed(ctx.seed)
    items, bound = space(ctx)
    n_items = len(items)
    items = seeded_order(items, ctx.seed)
    scratch = str(ctx.scratch)
    backends = ('fgen', 'cgen')
    by_shape = ctx.quick
    chunks = [(items[i:i + CHUNK], names, backends, ctx.seed, by_shape) for i in range(0, n_items, CHUNK)]
    ctx.reset_pool()
    results = ctx.pmap(work, chunks, chunksize=1, ordered=True)
    tot = dict(n=0, nontrivial=0, skipped_intpow=0, refused=0, derived_changed=0)
    judged = {b: 0 for b in backends}
    texts = {b: set() for b in backends}
    recs = {b: {} for b in backends}
    refused_samples = []
    for r in results:
        for k in tot:
            tot[k] += r[k]
        for b in backends:
            judged[b] += r['judged'][b]
            texts[b] |= r['texts'][b]
            for key, rec in r['recs'][b].items():
                old = recs[b].get(key)
                if old is None or rec['mask'].count('1') > old['mask'].count('1'):
                    recs[b][key] = rec
        refused_samples += r.get('refused_samples', [])
        for sig, case, det in r['viol']:
            ctx.violation(sig, case, det)
    ctx.require(tot['n'] == n_items, 'lost work items')
    t_phase1 = ctx.elapsed()
    # ---- phase 2: ground truth for the emitted texts
    jobs = []
    for b in backends:
        lst = [recs[b][k] for k in sorted(recs[b], key=repr)]
        jobs += [(b, lst[i:i + 600], scratch) for i in range(0, len(lst), 600)]
    cres = ctx.pmap(compile_work, jobs, chunksize=1, ordered=True)
    comp = dict(conf_checked=0, nonstd_confirmed=0, reject_confirmed=0)
    compiled = {b: 0 for b in backends}
    conf_err = []
    for (b, _l, _s), r in zip(jobs, cres):
        compiled[b] += r['compiled']
        for k in comp:
            comp[k] += r[k]
        conf_err += r['conf_err']
    ctx.require(not conf_err, 'text model and compiler disagree (harness, not a verdict): ' + ' || '.join(conf_err[:5]))
    ctx.require(tot['nontrivial'] > 0.5 * n_items, f'vacuous: only {tot["nontrivial"]} of {n_items} trees take >= 2 values')
    ctx.require(comp['conf_checked'] > 5 * (compiled['fgen'] + compiled['cgen']) > 0,
                f'vacuous conformance: {comp["conf_checked"]} compiled evaluations')
    if refused_samples:
        ctx.note(f'derived trees not judged (simplify/substitution raised or left the alphabet): {tot["refused"]}, '
                 f'e.g. {refused_samples[:3]}')
    ctx.cov.update(
        evaluations=judged['fgen'] + judged['cgen'], distinct_nontrivial=tot['nontrivial'], exhaustive=True,
        rule='every well-typed tree of the grammar within the operator bound, one representative per variable renaming, '
             'printed by fgen and cgen and evaluated on the complete valuation grid '
             f'(int {list(G.INT_POOL)}, real {[str(v) for v in G.REAL_POOL]}, logical both) + trees built by '
             'SubstituteExpressionsMapper / simplify; non-trivial = the tree takes >= 2 distinct defined values over the grid',
        trees=n_items, judged_fgen=judged['fgen'], judged_cgen=judged['cgen'], cgen_int_pow_not_judged=tot['skipped_intpow'],
        distinct_texts_fgen=len(texts['fgen']), distinct_texts_cgen=len(texts['cgen']),
        compiled_by='token shape (identifiers and unsigned literals abstracted) x result type: one representative text each' if by_shape
        else 'every distinct text',
        compiled_gfortran=compiled['fgen'], compiled_gcc=compiled['cgen'],
        traces_validated_against_impl=comp['conf_checked'],
        nonstandard_texts_confirmed_by_gfortran=comp['nonstd_confirmed'],
        rejected_texts_confirmed_by_compiler=comp['reject_confirmed'],
        derived_trees_changed_by_loki=tot['derived_changed'], derived_trees_not_judged=tot['refused'],
        samples=[items[0], items[n_items // 3], items[-1]],
        bound=bound, wall_judge_s=round(t_phase1, 1), wall_compile_s=round(ctx.elapsed() - t_phase1, 1),
    )
    ctx.assumptions += [
        'gfortran 12 (-std=f2008; -std=gnu for texts using the sign-after-operator extension) and gcc 12 are ground truth '
        'for the emitted texts; the vf.exprsem text evaluators are validated against them on the emitted texts '
        '(quick: one text per token shape; thorough: every distinct text)',
        'vf.exprsem.treeeval gives the value of a tree (exact integers with truncating division, exact rationals)',
        'printing does not depend on identifier spelling beyond the three name pools selected by VERIF_SEED',
    ]


def replay(case):
    """Re-judge one item (model + real compiler)."""
    _silence()
    names = G.names_for_seed(case.get('names_seed', 0))
    b = case['backend']
    item = {k: v for k, v in case.items() if k in ('tree', 'subst', 'by', 'simplify')}
    expr, spec = realise(item, names)
    r = judge(expr, spec, b, names)
    if r.get('skipped') or r['kind'] is None:
        return None
    msg = r['detail']
    # confirm with the real compiler where the grid fits
    if not _IN_RUN and r['text'] is not None and len(r['vars']) <= B.MAXVARS \
            and r['kind'] in ('value', 'nonstd', 'reject'):
        rec = dict(id=0, text=r['text'], rtype=r['rtype'], vars=r['vars'], mask=r['mask'])
        if b == 'fgen':
            got = B.eval_fortran([rec], POOLS, std='gnu').get(0)
            rej = B.fortran_rejected([rec], POOLS, std='f2008') if '1' in rec['mask'] else {}
            msg += f' | gfortran: {"model values confirmed" if got == r["model"] else got}'
            if rej:
                msg += f' | gfortran -std=f2008: {rej.get(0)}'
        else:
            got = B.eval_c([rec], POOLS).get(0)
            msg += f' | gcc: {"model values confirmed" if got == r["model"] else got}'
    return msg
