"""C09  symbolic_op only answers what holds for all values.

ENUM.  Space: ordered pairs (e1, e2) of integer expression trees (vf.exprgen grammar: sums/products of
2-3 children, quotients, powers, unary minus; 2 variables + literals 2 and -3 incl. the negative
IntLiteral), one representative per variable renaming of the *pair*, x the six comparison operators.
  quick:    all pairs of trees with <= 1 operator (plain binary nodes)
            + (t, leaf) for every tree t with 2 operators (plain binary nodes) and every leaf
  thorough: all pairs of trees with <= 1 operator (plain nodes of 2-3 children, Parenthesised* binary nodes)
            + (t, leaf), (leaf, t) and (t, u) for every 2-operator tree t and every 1-operator plain binary tree u
(symbolic_op costs ~2.4 ms per call, which is what bounds these spaces)

Oracle: symbolic_op(e1, op, e2) may raise (any exception = "declined to answer") or return something
that is not a bool (no definite answer); a returned bool b is a violation iff some valuation of the
complete grid [-4, 4]^2 (zero included) at which both trees are defined (non-zero divisors, 32 bit)
gives  op(value(e1), value(e2)) != b  under exact integer arithmetic with truncating division.
Sound by construction: every reported violation carries its refuting valuation.  Nothing is demanded
for pairs on which the helper declines.
"""
import operator as _op

from vf import exprgen as G
from vf.explore import seeded_order

PROPERTY = 'C09'
LEVEL = 'exploration'
META = dict(
    engine='enum',
    technique='bounded-exhaustive enumeration of ordered pairs of integer expression trees x 6 comparison operators; '
              'every definite answer checked against exact evaluation on a complete valuation grid',
    level_text='every ordered pair of integer trees within the bound (quick: <=1 binary operator each + 2-operator trees '
               'against leaves; thorough: + 3-child and Parenthesised* forms, 2-operator trees against 1-operator trees) x {eq,ne,lt,le,gt,ge}: '
               'no returned bool is refuted by a valuation in [-4,4]^2',
    level_note='a refuting valuation is a proof of violation; absence of one is a bounded claim (grid, tree size); exact '
               'integer semantics from vf.exprsem.treeeval',
)

OPS = ('eq', 'ne', 'lt', 'le', 'gt', 'ge')
VALS = tuple(range(-4, 5))
POOLS = {'i': VALS, 'r': (), 'l': ()}
_NAMES = G.CANON_NAMES
_CFG = dict(G.DEFAULT_CFG)
NV = 2


def _silence():
    import logging
    logging.disable(logging.CRITICAL)
    try:
        import loki.logging as ll
        ll.set_log_level('ERROR')
    except Exception:  # pylint: disable=broad-except
        pass


def ask(e1, opname, e2):
    """-> True | False | None (declined: raised, or returned no bool)"""
    from loki.expression.symbolic import symbolic_op
    try:
        r = symbolic_op(e1, getattr(_op, opname), e2)
    except RecursionError:
        return None
    except Exception:  # pylint: disable=broad-except
        return None
    if isinstance(r, bool):
        return r
    return None


def value_vector(spec, names, nvars):
    """Values of the tree on the complete grid over `nvars` integer variables (None where undefined)."""
    expr = G.build(spec, names)
    vs = [('i', k) for k in range(nvars)]
    out = []
    for val in G.grid(vs, POOLS):
        v, _ = G.tree_value(expr, G.env_of(val, names))
        if isinstance(v, str):
            if v == G.NOPARSE:
                raise RuntimeError(f'reference evaluator cannot evaluate {G.show(spec)}')
            v = None
        out.append(v)
    return out


def refute(v1, v2, opname, answer, nvars):
    """First grid index at which op(v1, v2) != answer, or None."""
    f = getattr(_op, opname)
    for n, (a, b) in enumerate(zip(v1, v2)):
        if a is None or b is None:
            continue
        if f(a, b) != answer:
            return n
    return None


def valuation_at(n, nvars):
    vs = [('i', k) for k in range(nvars)]
    return G.grid(vs, POOLS)[n]


def pair_nvars(t1, t2):
    ks = [k for (_, k) in G.variables(['pair', t1, t2])]
    return max(ks) + 1 if ks else 0


def check_pair(t1, t2, names, ops=OPS, vec=None):
    """-> (answers: {op: bool|None}, violations: [(op, answer, detail)])"""
    nv = max(pair_nvars(t1, t2), 1)
    e1, e2 = G.build(t1, names), G.build(t2, names)
    answers, viol = {}, []
    v1 = v2 = None
    for opname in ops:
        r = ask(e1, opname, e2)
        answers[opname] = r
        if r is None:
            continue
        if v1 is None:
            if vec is not None and nv <= NV:
                v1, v2 = vec(t1), vec(t2)
                nvv = NV
            else:
                v1, v2 = value_vector(t1, names, nv), value_vector(t2, names, nv)
                nvv = nv
        n = refute(v1, v2, opname, r, nvv)
        if n is not None:
            val = valuation_at(n, nvv)
            viol.append((opname, r, f'symbolic_op({G.show(t1, names)}, {opname}, {G.show(t2, names)}) returned {r}, but at '
                                    f'{G.env_of(val, names)} the values are {v1[n]} and {v2[n]}'))
    return answers, viol


# ------------------------------------------------------------------ signatures
# What a definite answer *claims* for all values; the same claim can come from two operators
# (eq -> True and ne -> False both claim e1 == e2) and, mirrored, from the swapped call.
CLAIM = {('eq', True): '==', ('ne', False): '==', ('eq', False): '/=', ('ne', True): '/=',
         ('lt', True): '<', ('ge', False): '<', ('lt', False): '>=', ('ge', True): '>=',
         ('gt', True): '>', ('le', False): '>', ('gt', False): '<=', ('le', True): '<='}
MIRROR = {'==': '==', '/=': '/=', '<': '>', '>': '<', '<=': '>=', '>=': '<='}
REL = {'==': _op.eq, '/=': _op.ne, '<': _op.lt, '>=': _op.ge, '>': _op.gt, '<=': _op.le}
_KIND_MEMO = {}
_CORE_MEMO = {}
_VEC = {}


def _vector(t):
    """Value vector over the 2-variable grid; independent of identifier spelling."""
    k = G.key(t)
    if k not in _VEC:
        _VEC[k] = value_vector(t, _NAMES, NV)
    return _VEC[k]


def kind_of(pair, rel):
    """rel iff some operator's answer on this pair claims `e1 rel e2` for all values and a valuation refutes it."""
    if pair[0] != 'pair' or len(pair) != 3 or pair_nvars(pair[1], pair[2]) > NV:
        return None          # cores are kept within the 2 variables of the grid
    k = (G.key(pair), rel)
    if k not in _KIND_MEMO:
        r = None
        try:
            e1, e2 = G.build(pair[1], _NAMES), G.build(pair[2], _NAMES)
            for (opname, ans), c in CLAIM.items():
                if c == rel and ask(e1, opname, e2) is ans:
                    v1, v2 = _vector(pair[1]), _vector(pair[2])
                    f = REL[rel]
                    if any(a is not None and b is not None and not f(a, b) for a, b in zip(v1, v2)):
                        r = rel
                    break
        except Exception:  # pylint: disable=broad-except
            r = None
        _KIND_MEMO[k] = r
    return _KIND_MEMO[k]


def signature(t1, t2, opname, answer):
    rel = CLAIM[(opname, answer)]
    memo = _CORE_MEMO.setdefault(rel, {})
    core = G.shrink_core(['pair', t1, t2], lambda s: kind_of(s, rel), memo, _CFG)
    a, b = core[1], core[2]
    # orientation: the larger tree first (a claim and its mirror image are the same finding)
    if (G.measure(a), repr(a)) < (G.measure(b), repr(b)):
        sw = G.canonical(['pair', b, a])
        a, b, rel = sw[1], sw[2], MIRROR[rel]
    return f'symbolic_op claims {G.show(a)} {rel} {G.show(b)} for all values', core


def _vec_for(names):          # pylint: disable=unused-argument
    return _vector


def work(arg):
    _silence()
    pairs, names, name_seed = arg
    res = dict(pairs=0, calls=0, definite=0, declined=0, viol=[], by_op={o: [0, 0, 0] for o in OPS}, nontrivial=0)
    vec = _vec_for(names)
    for t1, t2 in pairs:
        res['pairs'] += 1
        answers, viol = check_pair(t1, t2, names, vec=vec)
        nd = 0
        for o, r in answers.items():
            res['calls'] += 1
            if r is None:
                res['declined'] += 1
                res['by_op'][o][2] += 1
            else:
                nd += 1
                res['definite'] += 1
                res['by_op'][o][0 if r else 1] += 1
        if nd:
            res['nontrivial'] += 1
        for opname, r, detail in viol:
            sig, _core = signature(t1, t2, opname, r)
            res['viol'].append((sig, dict(e1=t1, e2=t2, op=opname, names_seed=name_seed), detail))
    return res


def space(ctx):
    """quick:    pairs of trees with <= 1 binary plain operator; (2-operator tree, leaf)
    thorough: pairs of trees with <= 1 operator (plain 2-3 children, Parenthesised* binary);
              (2-operator tree, leaf) and (leaf, 2-operator tree); (2-operator tree, 1-operator binary plain tree)"""
    plain_bin = G.Enumerator(dict(_CFG, canonical=False, forms=('plain',), arities=(2,)))
    if ctx.quick:
        small = plain_bin.trees('i', 0) + plain_bin.trees('i', 1)
    else:
        plain_all = G.Enumerator(dict(_CFG, canonical=False, forms=('plain',)))
        paren_bin = G.Enumerator(dict(_CFG, canonical=False, forms=('paren',), arities=(2,)))
        small = plain_all.trees('i', 0) + plain_all.trees('i', 1) + paren_bin.trees('i', 1)
    pairs = []
    for t1 in small:
        for t2 in small:
            if G.is_canonical(['pair', t1, t2]):
                pairs.append((t1, t2))
    n_small_pairs = len(pairs)
    big = plain_bin.trees('i', 2)
    leaves = plain_bin.trees('i', 0)
    ones = plain_bin.trees('i', 1)
    nbig = 0
    for t in big:
        cands = [(t, u) for u in leaves]
        if not ctx.quick:
            cands += [(u, t) for u in leaves] + [(t, u) for u in ones]
        for p in cands:
            if G.is_canonical(['pair', p[0], p[1]]):
                pairs.append(p)
                nbig += 1
    bound = dict(small_trees=len(small), small_pairs=n_small_pairs, two_operator_trees=len(big),
                 mixed_pairs=nbig, operators=list(OPS), grid=f'[{VALS[0]},{VALS[-1]}]^2',
                 small_tree_forms='plain binary' if ctx.quick else 'plain 2-3 children + Parenthesised* binary',
                 two_operator_partners='leaves (tree first)' if ctx.quick else
                 'leaves (both orders) + 1-operator plain binary trees (tree first)',
                 leaves='2 variables + IntLiteral 2, -3')
    return pairs, bound


def run(ctx):
    _silence()
    names = G.names_for_seed(ctx.seed)
    pairs, bound = space(ctx)
    n = len(pairs)
    pairs = seeded_order(pairs, ctx.seed)
    chunk = 400
    chunks = [(pairs[i:i + chunk], names, ctx.seed) for i in range(0, n, chunk)]
    ctx.reset_pool()
    results = ctx.pmap(work, chunks, chunksize=1)
    tot = dict(pairs=0, calls=0, definite=0, declined=0, nontrivial=0)
    by_op = {o: [0, 0, 0] for o in OPS}
    for r in results:
        for k in tot:
            tot[k] += r[k]
        for o in OPS:
            for j in range(3):
                by_op[o][j] += r['by_op'][o][j]
        for sig, case, det in r['viol']:
            ctx.violation(sig, case, det)
    ctx.require(tot['pairs'] == n, 'lost work items')
    ctx.require(tot['definite'] > 0.05 * tot['calls'], f'vacuous: only {tot["definite"]} definite answers in {tot["calls"]} calls')
    ctx.require(all(by_op[o][0] and by_op[o][1] for o in OPS), f'vacuous: some operator never answered both ways: {by_op}')
    ctx.cov.update(
        evaluations=tot['calls'], distinct_nontrivial=tot['nontrivial'], exhaustive=True,
        rule='every ordered pair of integer trees within the bound (one representative per renaming of the pair) x 6 '
             'operators; every returned bool checked on the complete grid; non-trivial = pair with at least one definite answer',
        pairs=n, definite_answers=tot['definite'], declined=tot['declined'],
        answers_true_false_declined_by_operator={o: by_op[o] for o in OPS},
        samples=[dict(e1=pairs[0][0], e2=pairs[0][1]), dict(e1=pairs[n // 2][0], e2=pairs[n // 2][1]),
                 dict(e1=pairs[-1][0], e2=pairs[-1][1])],
        bound=bound,
    )
    ctx.assumptions += [
        'vf.exprsem.treeeval gives the Fortran value of an integer tree (truncating division, integer power)',
        'any exception and any non-bool return value of symbolic_op count as "declined to answer"',
    ]


def replay(case):
    _silence()
    names = G.names_for_seed(case.get('names_seed', 0))
    _a, viol = check_pair(case['e1'], case['e2'], names, ops=(case['op'],))
    return viol[0][2] if viol else None
