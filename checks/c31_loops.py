"""C31  Loop transformations preserve behaviour where they apply.

ENUM (deviation-bounded, one template per transformation family) + gfortran differential run.
Seven families, each a kernel assembled from *switches*, one per branch / shortcut visible in the code
of loki/transformations/transform_loop.py and loop_blocking.py:

unroll   (LoopUnrollTransformer.visit_Loop, do_loop_unroll)
    range        every literal (start, stop, step) of [-2..4]^2 x {omitted,1,-1,2,-2,3} (quick: [-1..3]^2 x
                 {omitted,1,-1,2,-2}); empty, single-trip, non-dividing and descending ranges are all in there
                 (get_pyrange is the range model of the unroller)
    body         how the body uses the index: subscript + arithmetic (base), read after the loop, under `**`,
                 negated / subtracted, offset subscripts, MOD, in a condition, as actual argument, in the bounds of
                 an inner loop (counter_in_bounds), CYCLE / EXIT inside the body (top level and below an outer
                 loop), named construct, PARAMETER bound (must be left alone)
unrollnest (depth handling: depth=None/1/2/3, neighbour_loops, counter_in_bounds, nested pragmas)
    depth(n) on 2- and 3-deep nests, pragma on the inner loop (plain / depth(1)), neighbouring inner loops,
    inner bounds literal / descending / depending on the outer index / symbolic, outer loop symbolic, the
    parent/child depth conflict of the do_loop_unroll docstring
fusion   (do_loop_fusion)
    second loop's variable (same, other, other in upper case), lower / upper bound different but compatible
    (literal, n-1, n+1, other symbol), `range(..)` hints on one / all pragmas, named group, two interleaved groups,
    three loops, statement between the loops, insert-loc, collapse(2) on perfect nests (+ non-matching inner
    bound), private scalar in the bodies, conditional in a body, explicit unit step, non-unit / negative step
    (Polyhedron asserts: refusal).  Legality holds by construction: every loop updates its own array from
    read-only data.
fission  (do_loop_fission, FissionTransformer, promotion_dimensions_from_loop_nest)
    fission point(s) at each statement boundary, scalar crossing the point via promote(..) / via auto-promotion /
    not at all (promote=False is only paired with programs that need no promotion), lower bound 0/2, upper bound
    n-1 / literal, descending and strided loop, collapse(2), pragma only in the inner loop of a nest, pragma in the
    outer loop after an inner loop, pragma inside a conditional, array temporary, same temporary in two fission
    loops of different length, upper-case name in promote(..)
interchange (do_loop_interchange, generate_loop_bounds)
    2- and 3-deep nests, implicit / explicit variable order (all permutations), project_bounds on rectangular
    and triangular (j=i,m / j=1,i) nests (triangular nests only with project_bounds=True: otherwise the
    precondition is violated), literal bounds, lower bound 0, explicit steps (with project_bounds: Polyhedron
    asserts, refusal), extra pragma on the nest
split    (split_loop)  loop bounds 1:n, 2:n, 0:n-1, stride 2, descending, descending stride 2, literal; block
    size 1, 2, 3, 4, 7, 100 (divides / does not divide / equals / exceeds the trip count over n = 0..7), block
    size given as a scalar variable
block    (split_loop + block_loop_arrays)  block sizes as above; arrays: 1-d in/inout/out, 2-d with a section
    `c(:, i)`, 2-d with an inner loop index `c(j, i)`, blocked dimension first `d(i, j)`, array declared with
    lower bound 0 ... only loops `1:n` with unit stride (the copy ranges are written in iteration numbers)

Every combination of <= d switches (d=1 quick, d=2 thorough) of each family x the family's transformation
variants (direct utility and TransformLoopsTransformation) is built twice (original / transformed, gfortran -O0
-fcheck=bounds -finit-integer so that a rewrite that reads a no longer assigned variable fails deterministically)
with the same harness-owned driver, which runs the kernel on a grid of sizes and prints every output.

Readings taken (weaker ones): AssertionError raised inside loki.analyse.util_polyhedron (steps != 1) is counted
as an explicit refusal; order of floating-point operations is never an issue (dyadic values, independent
iterations); a loop variable's value after a fused / fissioned / interchanged / split loop is not observed
(only after unrolling, where the statement says "always preserves").
"""
from vf import xform
from vf.explore import deviations

PROPERTY = 'C31'
LEVEL = 'exploration'
META = dict(
    engine='enum',
    technique='deviation-bounded exhaustive template enumeration per loop-transformation family x complete literal '
              '(start,stop,step) grid for unrolling; gfortran differential run (original vs transformed)',
    level_text='unroll: every literal (start,stop,step) in [-2..4]^2 x {-,1,-1,2,-2,3} x 14 body shapes; depth(n) on 2/3-deep '
               'nests; fusion / fission / interchange / split_loop / block_loop_arrays templates with all combinations '
               'of <= d switches: transformed code compiles and prints exactly the original output for every size in '
               'the input grid; exhaustive for d',
    level_note='gfortran 12 -O0 -fcheck=bounds -finit-integer=-9999 is the semantics; exact dyadic reals; legality of '
               'fusion/fission/interchange holds by construction (each loop/statement owns its output array)',
)

FLAGS = xform.FLAGS + ('-finit-integer=-9999', '-finit-real=nan')

# ============================================================================ unroll
U_DEFAULT = (3, -2, -2)


def u_grid(quick):
    lo, hi = (-1, 3) if quick else (-2, 4)
    steps = (None, 1, -1, 2, -2) if quick else (None, 1, -1, 2, -2, 3)
    out = []
    for a in range(lo, hi + 1):
        for b in range(lo, hi + 1):
            for st in steps:
                if (a, b, st) != U_DEFAULT:
                    out.append((a, b, st))
    return out


def u_values(t):
    a, b, st = t
    st = 1 if st is None else st
    return list(range(a, b + (1 if st > 0 else -1), st))


def u_class(t):
    n = len(u_values(t))
    return f'trip{n if n < 2 else "N"}{"+" if (t[2] or 1) > 0 else "-"}'


U_BODIES = {
    # name: (extra body lines, lines after the loop, wrapper)
    'after': ([], ['iv = i'], None),
    'power': (['s = s + i**2'], [], None),
    'negate': (['s = s - i + (-i)*2'], [], None),
    'offset_sub': (['a(i + 1) = a(i - 1) + 1.0', 'a(2*i) = a(2*i) - 0.5'], [], None),
    'mod': (['s = s + mod(i, 3) + abs(i)'], [], None),
    'cond': (['if (i > 0) then', '  s = s + 1', 'else', '  s = s - 2', 'end if'], [], None),
    'call_arg': (['call bump(i, s)'], [], None),
    'inner_dep': (['do j = 0, i', '  s = s + j*(i + 5) + 1', 'end do'], [], None),
    'cycle_top': (['@first if (i == 1) cycle'], [], None),
    'exit_top': (['@first if (i == 1) exit'], [], None),
    'cycle_in_outer': (['@first if (i == 1) cycle'], [], 'outer'),
    'exit_in_outer': (['@first if (i == 1) exit'], [], 'outer'),
    'named': ([], [], 'named'),
    'param_bound': ([], [], 'param'),
}

U_HEAD = '''module lmod
  implicit none
contains
  subroutine bump(k, s)
    integer, intent(in) :: k
    integer, intent(inout) :: s
    s = s + 2*k
  end subroutine bump
  subroutine kern(a, s, iv)
    real, intent(inout) :: a(-9:9)
    integer, intent(inout) :: s, iv
    integer :: i, j, k
    integer, parameter :: np = 3
    i = -77
    j = -77
'''
U_TAIL = '''  end subroutine kern
end module lmod
'''
U_DRIVER = '''program drv
  use lmod
  implicit none
  real :: a(-9:9)
  integer :: s, iv, g, e
  do g = 1, 2
    do e = -9, 9
      a(e) = real(e*g) * 0.25
    end do
    s = g
    iv = 0
    call kern(a, s, iv)
    write(*,'(A,I0)') 'G', g
    write(*,'(A,19(1X,ES14.7))') 'A', a
    write(*,'(A,I0,1X,I0)') 'S', s, iv
  end do
end program drv
'''


def u_build(dev):
    a, b, st = dev.get('range', U_DEFAULT)
    extra, after, wrap = U_BODIES[dev['body']] if 'body' in dev else ([], [], None)
    rng = f'{a}, {b}' + (f', {st}' if st is not None else '')
    if wrap == 'param':
        rng = '1, np'
    first = [ln[7:] for ln in extra if ln.startswith('@first ')]
    rest = [ln for ln in extra if not ln.startswith('@first ')]
    body = first + ['a(i) = a(i) + real(i)*0.5', 's = s*3 + i'] + rest
    name = 'lp: ' if wrap == 'named' else ''
    end = ' lp' if wrap == 'named' else ''
    lines = ['!$loki loop-unroll', f'{name}do i = {rng}'] + ['  ' + ln for ln in body] + [f'end do{end}']
    if wrap == 'outer':
        lines = ['do k = 1, 2'] + ['  ' + ln for ln in lines] + ['  s = s + 1000*k', 'end do']
    lines += after
    return U_HEAD + ''.join(f'    {ln}\n' for ln in lines) + U_TAIL, U_DRIVER


def u_menu(quick):
    return {'range': u_grid(quick), 'body': list(U_BODIES)}


# ============================================================================ unroll, nests and depth
N_HEAD = '''module lmod
  implicit none
contains
  subroutine kern(c, s, n)
    real, intent(inout) :: c(0:4, 0:4)
    integer, intent(inout) :: s
    integer, intent(in) :: n
    integer :: i, j, k, j2
    i = -77
    j = -77
    k = -77
    j2 = -77
'''
N_DRIVER = '''program drv
  use lmod
  implicit none
  real :: c(0:4, 0:4)
  integer :: s, g, e, f
  do g = 1, 2
    do e = 0, 4
      do f = 0, 4
        c(e, f) = real(e*g - f) * 0.25
      end do
    end do
    s = g
    call kern(c, s, 1 + g)
    write(*,'(A,I0)') 'G', g
    write(*,'(A,25(1X,ES14.7))') 'C', c
    write(*,'(A,I0)') 'S', s
  end do
end program drv
'''
N_MENU = {
    'depth': [1, 2, 3],
    'levels': [3],
    'inner_pragma': ['plain', 'depth1'],
    'neighbour': [True],
    'jbounds': ['dep_lo', 'dep_hi', 'sym', 'desc'],
    'outer_sym': [True],
    'kbounds': ['dep'],
    'docstring_example': [True],
}


def n_build(dev):
    dev = dict(dev)
    if dev.get('docstring_example'):
        dev.update(depth=1, inner_pragma='plain', neighbour=True)
    depth = dev.get('depth')
    levels = dev.get('levels', 2)
    if 'kbounds' in dev:
        levels = 3
    jb = {'dep_lo': 'i, 2', 'dep_hi': '1, i', 'sym': '1, n', 'desc': '2, 1, -1'}.get(dev.get('jbounds'), '1, 2')
    kb = '1, j' if dev.get('kbounds') == 'dep' else '1, 2'
    ib = '1, n' if dev.get('outer_sym') else '1, 2'
    L = [f'!$loki loop-unroll{f" depth({depth})" if depth else ""}', f'do i = {ib}', '  s = s + 7*i']
    ip = dev.get('inner_pragma')
    if ip:
        L.append('  !$loki loop-unroll' + (' depth(1)' if ip == 'depth1' else ''))
    L.append(f'  do j = {jb}')
    if levels == 3:
        L += [f'    do k = {kb}', '      s = mod(s*2 + i*9 + j*3 + k, 10007)', '      c(i, j) = c(i, j) + real(k)*0.5', '    end do']
    else:
        L += ['    s = mod(s*2 + i*9 + j*3, 10007)', '    c(i, j) = c(i, j) + real(i)*0.5']
    L.append('  end do')
    if dev.get('neighbour'):
        L += ['  do j2 = 1, 2', '    s = mod(s*2 + j2 + i, 10007)', '    c(j2, 0) = c(j2, 0) + 1.5', '  end do']
    L.append('end do')
    return N_HEAD + ''.join(f'    {ln}\n' for ln in L) + U_TAIL, N_DRIVER


# ============================================================================ shared pieces for fusion / fission / ...
DECL = '''module lmod
  implicit none
contains
  subroutine kern(a, b, c, d, p, a2, b2, c3, q, n, m, k, nn)
    integer, intent(in) :: n, m, k, nn
    real, intent(inout) :: a(0:nn), b(0:nn), c(0:nn), d(0:nn)
    real, intent(in) :: p(0:nn)
    real, intent(inout) :: a2(0:nn, 0:nn), b2(0:nn, 0:nn), c3(0:nn, 0:nn, 0:nn)
    real, intent(inout) :: q
    integer :: i, j, l, ii, jj
    real :: t, u, tt(2)
'''
GRID_DRIVER = '''program drv
  use lmod
  implicit none
  integer, parameter :: nn = 6, ng = 6
  integer, parameter :: ns(ng) = (/ 3, 4, 2, 1, 0, 5 /), ms(ng) = (/ 3, 2, 5, 1, 2, 4 /), ks(ng) = (/ 1, 2, 0, 1, 1, 3 /)
  real :: a(0:nn), b(0:nn), c(0:nn), d(0:nn), p(0:nn), a2(0:nn, 0:nn), b2(0:nn, 0:nn), c3(0:nn, 0:nn, 0:nn), q
  integer :: g, e, f, h
  do g = 1, ng
    do e = 0, nn
      a(e) = real(e) * 0.5 - 1.0
      b(e) = real(mod(e*g, 4)) * 0.25 + 1.0
      c(e) = real(e - g) * 0.25
      d(e) = 2.0 - real(e)
      p(e) = real(mod(e + g, 3)) * 0.5 + 0.25
      do f = 0, nn
        a2(e, f) = real(e - 2*f) * 0.25
        b2(e, f) = real(e*f) * 0.125
        do h = 0, nn
          c3(e, f, h) = real(e + 2*f - h) * 0.5
        end do
      end do
    end do
    q = 0.5 * real(g)
    call kern(a, b, c, d, p, a2, b2, c3, q, ns(g), ms(g), ks(g), nn)
    write(*,'(A,I0)') 'G', g
    write(*,'(A,7(1X,ES14.7))') 'A', a
    write(*,'(A,7(1X,ES14.7))') 'B', b
    write(*,'(A,7(1X,ES14.7))') 'C', c
    write(*,'(A,7(1X,ES14.7))') 'D', d
    write(*,'(A,49(1X,ES14.7))') 'A2', a2
    write(*,'(A,49(1X,ES14.7))') 'B2', b2
    write(*,'(A,343(1X,ES14.7))') 'C3', c3
    write(*,'(A,1X,ES14.7)') 'Q', q
  end do
end program drv
'''


def wrap_kernel(lines, decl=DECL):
    return decl + ''.join(f'    {ln}\n' for ln in lines) + U_TAIL


# ============================================================================ fusion
F_MENU = {
    'var2': ['j', 'J'],
    'lo2': ['2', '0', 'k'],
    'hi2': ['n - 1', 'n + 1', 'm', '4'],
    'hi1': ['m'],
    'hint': ['loop2', 'all'],
    'group': ['named'],
    'third': ['same', 'other_group'],
    'between': [True],
    'insert_loc': [True],
    'collapse': [2, '2_inner_differs'],
    'scalar_tmp': [True],
    'cond_body': [True],
    'step': ['unit', 'two', 'descending'],
}


def f_build(dev):
    col = dev.get('collapse')
    v2 = dev.get('var2', 'i')
    lo2, hi2, hi1 = dev.get('lo2', '1'), dev.get('hi2', 'n'), dev.get('hi1', 'n')
    grp = ' group(g1)' if dev.get('group') == 'named' else ''
    colp = ' collapse(2)' if col else ''
    rng = ' range(0:nn,0:nn)' if col else ' range(0:nn)'
    hint = dev.get('hint')
    step = {'unit': ', 1', 'two': ', 2', 'descending': ', -1'}.get(dev.get('step'), '')

    def loop(idx, var, lo, hi, arr, coef, pragma_extra='', group=grp):
        if dev.get('step') == 'descending':
            lo, hi = hi, lo
        out = [f'!$loki loop-fusion{group}{colp}{pragma_extra}', f'do {var} = {lo}, {hi}{step}']
        if col:
            inner_hi = 'm - 1' if (col == '2_inner_differs' and idx == 2) else 'm'
            out += [f'  do jj = 1, {inner_hi}',
                    f'    {arr}2({var}, jj) = {arr}2({var}, jj) + p({var})*real(jj)*{coef}', '  end do']
        elif dev.get('cond_body') and idx == 2:
            out += [f'  if (p({var}) > 0.5) then', f'    {arr}({var}) = {arr}({var}) + {coef}', '  else',
                    f'    {arr}({var}) = {arr}({var}) - real({var})', '  end if']
        elif dev.get('scalar_tmp'):
            out += [f'  t = p({var})*{coef}', f'  {arr}({var}) = {arr}({var}) + t + real({var})']
        else:
            out += [f'  {arr}({var}) = {arr}({var}) + p({var})*{coef} + real({var})']
        out.append('end do')
        return out

    L = loop(1, 'i', '1', hi1, 'a', '2.0', rng if hint == 'all' else '')
    if dev.get('between'):
        L += ['q = q + 1.5']
    third = dev.get('third')
    if third == 'other_group' and not col:
        L += loop(3, 'i', '1', 'n', 'c', '4.0', group=' group(g2)')
    L += loop(2, v2, lo2, hi2, 'b', '0.5', (rng if hint else '') + (' insert-loc' if dev.get('insert_loc') else ''))
    if third == 'same' and not col:
        L += loop(3, 'i', '1', 'm', 'c', '4.0', rng if hint == 'all' else '')
    if third == 'other_group' and not col:
        L += loop(4, 'i', '2', 'n', 'd', '1.5', group=' group(g2)')
    return wrap_kernel(L), GRID_DRIVER


# ============================================================================ fission
S_MENU = {
    'points': ['second', 'both'],
    'carry': ['auto', 'explicit', 'explicit_upper'],
    'lo': ['0', '2'],
    'hi': ['n - 1', '4'],
    'step': ['descending', 'two'],
    'nest': ['collapse2', 'inner_only', 'outer_after_inner'],
    'in_cond': [True],
    'array_tmp': [True],
    'two_loops_same_tmp': [True],
}


def s_build(dev):
    carry = dev.get('carry')
    lo, hi = dev.get('lo', '1'), dev.get('hi', 'n')
    st = dev.get('step')
    rng = f'{hi}, {lo}, -1' if st == 'descending' else (f'{lo}, {hi}, 2' if st == 'two' else f'{lo}, {hi}')
    pts = dev.get('points', 'first')
    nest = dev.get('nest')
    atmp = dev.get('array_tmp')
    prom = {'explicit': ' promote(t)', 'explicit_upper': ' promote(T)'}.get(carry, '')
    if atmp and prom:
        prom = prom.replace('t)', 'tt)').replace('T)', 'TT)')
    col = ' collapse(2)' if nest == 'collapse2' else ''
    two_d = nest in ('collapse2', 'inner_only')
    x = (lambda arr: f'{arr}2(i, j)') if two_d else (lambda arr: f'{arr}(i)')
    tv = 'tt(1)' if atmp else 't'
    s1 = [f'{tv} = p(i)*2.0', f'{x("a")} = {x("a")} + {tv}']
    if atmp:
        s1.insert(1, 'tt(2) = p(i) + 0.5')
    s2 = [f'{x("b")} = {x("b")} + ' + (f'{tv}*0.5' + (' + tt(2)' if atmp else '') if carry else 'p(i)*0.5')]
    s3 = [f'c(i) = c(i) + real(i) + p(i)'] if not two_d else ['a2(i, 0) = a2(i, 0) + real(i + j)*0.5']
    pr = f'!$loki loop-fission{col}'
    body = list(s1)
    if pts in ('first', 'both'):
        body.append(pr + prom)
    if dev.get('in_cond'):
        body = ['if (p(i) > 0.5) then'] + ['  ' + ln for ln in body + s2] + ['end if']
    else:
        body += s2
    if pts in ('second', 'both'):
        # a scalar crossing the second point as well would need promotion there too: only s2 reads it
        body.append(pr)
    body += s3
    L = []
    if two_d:
        L += ['do j = 1, m', f'  do i = {rng}'] + ['    ' + ln for ln in body] + ['  end do', 'end do']
    elif nest == 'outer_after_inner':
        L += [f'do i = {rng}', '  do j = 1, m', '    a2(i, j) = a2(i, j) + p(i)*real(j)', '  end do'] + \
             ['  ' + ln for ln in body] + ['end do']
    else:
        L += [f'do i = {rng}'] + ['  ' + ln for ln in body] + ['end do']
    if dev.get('two_loops_same_tmp'):
        L += ['do i = 1, m', f'  {tv} = p(i) + 1.0', f'  {pr}{prom}', f'  d(i) = d(i) + {tv}', 'end do']
    return wrap_kernel(L), GRID_DRIVER


def s_needs_promote(dev):
    return dev.get('carry') == 'auto' or (dev.get('two_loops_same_tmp') and 'carry' not in dev) or \
        (dev.get('array_tmp') and dev.get('carry') in (None, 'auto'))


# ============================================================================ interchange
I_MENU = {
    'depth': [3],
    'order': ['explicit', 'p1', 'p2', 'p3', 'p4'],
    'shape': ['tri_lower', 'tri_upper'],
    'bounds': ['literal', 'lb0'],
    'step': ['unit', 'neg_outer', 'two_inner'],
    'extra_pragma': [True],
}
I_PERMS3 = {'p1': 'i, l, j', 'p2': 'j, i, l', 'p3': 'j, l, i', 'p4': 'l, i, j', 'explicit': 'l, j, i'}


def i_build(dev):
    depth = dev.get('depth', 2)
    order = dev.get('order')
    if order in ('p1', 'p2', 'p3', 'p4'):
        depth = 3
    shape, bnd, st = dev.get('shape'), dev.get('bounds'), dev.get('step')
    lo = '0' if bnd == 'lb0' else '1'
    ihi, jhi = ('3', '4') if bnd == 'literal' else ('n', 'm')
    ir_ = f'{lo}, {ihi}'
    jr = {'tri_lower': f'i, {jhi}', 'tri_upper': f'{lo}, i'}.get(shape, f'{lo}, {jhi}')
    if st == 'unit':
        ir_, jr = ir_ + ', 1', jr + ', 1'
    elif st == 'neg_outer':
        ir_ = f'{ihi}, {lo}, -1'
    elif st == 'two_inner':
        jr += ', 2'
    if order is None:
        par = ''
    elif depth == 3:
        par = f' ({I_PERMS3[order]})'
    else:
        par = ' (j, i)'
    L = [f'!$loki loop-interchange{par}']
    if dev.get('extra_pragma'):
        L.append('!$loki some-pragma')
    L += [f'do i = {ir_}', f'  do j = {jr}']
    if depth == 3:
        L += ['    do l = 1, k', '      c3(i, j, l) = c3(i, j, l) + real(i*16 + j*4 + l)*0.5', '    end do']
    else:
        L += ['    a2(i, j) = a2(i, j) + real(i*8 + j)*0.5 + p(i)']
    L += ['  end do', 'end do']
    return wrap_kernel(L), GRID_DRIVER


# ============================================================================ split_loop / block_loop_arrays
B_DECL = '''module lmod
  implicit none
contains
  subroutine kern(a, b, c, d, p, a2, b2, c3, q, n, m, k, nn)
    integer, intent(in) :: n, m, k, nn
    real, intent(inout) :: a(0:nn), b(0:nn)
    real, intent(out) :: c(0:nn)
    real, intent(inout) :: d(0:nn)
    real, intent(in) :: p(0:nn)
    real, intent(inout) :: a2(0:nn, 0:nn), b2(0:nn, 0:nn), c3(0:nn, 0:nn, 0:nn)
    real, intent(inout) :: q
    integer :: i, j, bs
    bs = 3
'''
B_DRIVER = GRID_DRIVER.replace('ng = 6', 'ng = 8') \
    .replace('ns(ng) = (/ 3, 4, 2, 1, 0, 5 /)', 'ns(ng) = (/ 0, 1, 2, 3, 4, 5, 6, 6 /)') \
    .replace('ms(ng) = (/ 3, 2, 5, 1, 2, 4 /)', 'ms(ng) = (/ 3, 2, 5, 1, 2, 4, 0, 6 /)') \
    .replace('ks(ng) = (/ 1, 2, 0, 1, 1, 3 /)', 'ks(ng) = (/ 1, 2, 0, 1, 1, 3, 2, 2 /)')
BS_MENU = {
    'bounds': ['2, n', '0, n - 1', '1, n, 2', 'n, 1, -1', 'n, 2, -2', '1, 5'],
    'block_size': [1, 3, 4, 7, 100, 'var'],
    'body': ['accumulate'],
}
BB_MENU = {
    'block_size': [1, 3, 4, 7, 100],
    'arrays': ['out_only', 'section2d', 'inner_index2d', 'blocked_first', 'in_only_read'],
    'upper': ['literal'],
}


def bs_build(dev):
    rng = dev.get('bounds', '1, n')
    L = ['c = 0.0', f'do i = {rng}', '  a(i) = a(i) + p(i)*2.0 + real(i)', '  c(i) = b(i) * 0.5']
    if dev.get('body') == 'accumulate':
        L += ['  q = q*2.0 + real(i)']
    L += ['end do']
    return wrap_kernel(L, B_DECL), B_DRIVER


def bb_build(dev):
    rng = '1, 5' if dev.get('upper') == 'literal' else '1, n'
    arr = dev.get('arrays')
    L = ['c = 0.0', f'do i = {rng}']
    if arr == 'out_only':
        L += ['  c(i) = real(i)*0.5']
    elif arr == 'section2d':
        L += ['  a(i) = a(i) + 1.0', '  a2(:, i) = a2(:, i) + a(i)']
    elif arr == 'inner_index2d':
        L += ['  a(i) = a(i) + 1.0', '  do j = 0, m', '    a2(j, i) = a2(j, i)*2.0 + b(i)', '  end do']
    elif arr == 'blocked_first':
        L += ['  do j = 0, m', '    b2(i, j) = b2(i, j) + p(i)*real(j)', '  end do']
    elif arr == 'in_only_read':
        L += ['  q = q + p(i)*real(i)']
    else:
        L += ['  a(i) = a(i) + p(i)*2.0 + real(i)', '  c(i) = b(i) * 0.5']
    L += ['end do']
    return wrap_kernel(L, B_DECL), B_DRIVER


# ============================================================================ case stream
FAMILIES = {
    # name: (menu(quick) -> dict, build(dev) -> (text, driver), [(xform, opts)...], filter(dev, xf, opts) -> bool)
    'unroll': (u_menu, u_build, [('unroll', {}), ('trafo', dict(loop_unroll=True))], None),
    'unrollnest': (lambda q: N_MENU, n_build, [('unroll', {})], None),
    'fusion': (lambda q: F_MENU, f_build, [('fusion', {}), ('trafo', dict(loop_fusion=True))], None),
    'fission': (lambda q: S_MENU, s_build,
                [('fission', dict(promote=True, warn_loop_carries=True)),
                 ('fission', dict(promote=False, warn_loop_carries=False)),
                 ('trafo', dict(loop_fission=True))],
                lambda dev, xf, o: not (s_needs_promote(dev) and o.get('promote') is False)),
    'interchange': (lambda q: I_MENU, i_build,
                    [('interchange', dict(project_bounds=False)), ('interchange', dict(project_bounds=True)),
                     ('trafo', dict(loop_interchange=True, interchange_project_bounds=True))],
                    lambda dev, xf, o: not ('shape' in dev and not (o.get('project_bounds') or
                                                                    o.get('interchange_project_bounds')))),
    'split': (lambda q: BS_MENU, bs_build, [('split', {})], None),
    'block': (lambda q: BB_MENU, bb_build, [('block', {})], None),
}


def fmt_val(v):
    if isinstance(v, (tuple, list)):
        return '(' + ','.join('-' if x is None else str(x) for x in v) + ')'
    return str(v).replace(' ', '')


def dev_id(dev):
    return '+'.join(f'{k}={fmt_val(v)}' for k, v in dev.items()) or 'base'


def case_id(fam, dev, xf, opts):
    oid = ','.join(f'{k}={v}' for k, v in sorted(opts.items()))
    return f'{fam}:{dev_id(dev)}|{xf}({oid})'


def make_cases(d, quick=None):
    """every combination of <= d switches per family x the family's transformation variants.
    The unroll grid is the quick sub-grid for d == 1 unless `quick` says otherwise."""
    quick = (d <= 1) if quick is None else quick
    cases = []
    for fam, (menu, build, xfs, keep) in FAMILIES.items():
        for dev in deviations(menu(quick), d):
            text, driver = build(dev)
            for n, (xf, opts) in enumerate(xfs):
                if keep and not keep(dev, xf, opts):
                    continue
                if xf == 'trafo' and len(dev) > 1:
                    continue        # the Transformation wrapper adds no branch of its own: d <= 1 only
                block_size = dev.get('block_size', 2) if fam in ('split', 'block') else None
                o = dict(opts, block_size=block_size) if block_size is not None else dict(opts)
                cases.append(dict(id=case_id(fam, dev, xf, opts), sources=[['lmod.f90', text]], driver=driver,
                                  xform=xf, opts=o, family=fam, variant=n,
                                  switches=[[k, (list(v) if isinstance(v, tuple) else v)] for k, v in dev.items()]))
    return cases


def apply(case, files):
    from loki import FindNodes, ir
    from loki.transformations import transform_loop as tl
    from loki.transformations import loop_blocking as lb
    xf, o = case['xform'], dict(case['opts'])
    for sf in files.values():
        for r in sf.all_subroutines:
            if r.name.lower() != 'kern':
                continue
            try:
                if xf == 'unroll':
                    tl.do_loop_unroll(r)
                elif xf == 'fusion':
                    tl.do_loop_fusion(r)
                elif xf == 'fission':
                    tl.do_loop_fission(r, **o)
                elif xf == 'interchange':
                    tl.do_loop_interchange(r, **o)
                elif xf == 'trafo':
                    tl.TransformLoopsTransformation(**o).apply(r)
                elif xf in ('split', 'block'):
                    bs = o['block_size']
                    if bs == 'var':
                        bs = r.variable_map['bs']
                    loop = FindNodes(ir.Loop).visit(r.body)[0]
                    sv, inner, outer = lb.split_loop(r, loop, bs)
                    if xf == 'block':
                        lb.block_loop_arrays(r, sv, inner, outer, ['i'])
                else:
                    raise ValueError(xf)
            except Exception as ex:  # pylint: disable=broad-except
                if polyhedron_assert(ex):
                    raise NotImplementedError('Polyhedron.from_loop_ranges asserts unit loop steps '
                                              '(non-unit step not supported)') from ex
                raise


def polyhedron_assert(ex):
    """bare `assert loop_range.step is None or == 1` in util_polyhedron (possibly wrapped by Transformation.apply)"""
    import traceback
    seen = set()
    while ex is not None and id(ex) not in seen:
        seen.add(id(ex))
        if isinstance(ex, AssertionError):
            tb = traceback.extract_tb(ex.__traceback__)
            if tb and tb[-1].filename.endswith('util_polyhedron.py') and tb[-1].name == 'from_loop_ranges':
                return True
        ex = ex.__cause__ or ex.__context__
    return False


def worker(case):
    r = xform.run_case(case, apply, base=worker.base, flags=FLAGS)
    r['id'] = case['id']
    return r


worker.base = None


def switch_label(case, k, v):
    if case['family'] == 'unroll' and k == 'range':
        return f'range[{u_class(tuple(v))}]'
    return f'{k}={fmt_val(v)}'


def sigfn(results_by_id):
    def sig(case, r):
        fam = case['family']
        _, _, xfs, _ = FAMILIES[fam]
        xf, opts = xfs[case['variant']]
        for k, v in case['switches']:
            v_ = tuple(v) if isinstance(v, list) else v
            single = results_by_id.get(case_id(fam, {k: v_}, xf, opts))
            if single and single['verdict'] == r['verdict']:
                return f'{r["verdict"]} block={switch_label(case, k, v)} xform={fam}'
        lab = '+'.join(switch_label(case, k, v) for k, v in case['switches']) or 'base'
        return f'{r["verdict"]} blocks={lab} xform={fam}'
    return sig


def run(ctx):
    d = 1 if ctx.quick else 2
    cases = make_cases(d, quick=ctx.quick)
    worker.base = str(ctx.scratch)
    ctx.reset_pool()
    results = xform.judge_cases(ctx, cases, worker)
    by_id = {r['id']: r for r in results}
    xform.summarise(ctx, cases, results, sigfn(by_id), min_changed=50)
    per_family = {}
    for c, r in zip(cases, results):
        f = per_family.setdefault(c['family'], dict(cases=0, changed_ok=0, refused=0, violating=0))
        f['cases'] += 1
        f['changed_ok'] += int(r['verdict'] == 'ok' and bool(r.get('changed')))
        f['refused'] += int(r['verdict'] == 'refused')
        f['violating'] += int(r['verdict'] not in ('ok', 'unchanged-ok', 'refused'))
    for fam, f in per_family.items():
        ctx.require(f['changed_ok'] >= 3, f'vacuous: family {fam} changed only {f["changed_ok"]} programs')
    grid = u_grid(ctx.quick)
    classes = sorted({u_class(t) for t in grid})
    ctx.require(len(classes) == 6, f'unroll grid misses a range class: {classes}')
    ctx.cov.update(
        exhaustive=True,
        bound=dict(max_switches=d, families={f: {k: len(v) for k, v in FAMILIES[f][0](ctx.quick).items()} for f in FAMILIES},
                   unroll_grid=len(grid) + 1, unroll_range_classes=classes),
        per_family=per_family,
        rule=f'per family all combinations of <= {d} switch settings x transformation variants; unroll: complete literal '
             f'(start,stop,step) grid of {len(grid) + 1} triples; 2 to 8 input sizes per run; non-trivial = the '
             'transformation changed the generated code and the program still prints the original output',
        samples=[dict(id=cases[0]['id']), dict(id=cases[-1]['id'], text=cases[-1]['sources'][0][1])],
    )
    ctx.assumptions += ['gfortran -O0 -fcheck=bounds -finit-integer=-9999 -finit-real=nan defines behaviour',
                        'only standard-conforming programs are generated; fusion/fission/interchange legality by construction',
                        'AssertionError from Polyhedron.from_loop_ranges (step != 1) is read as an explicit refusal']


def replay(case):
    r = xform.run_case(case, apply, flags=FLAGS)
    if r['verdict'] == 'HARNESS':
        raise RuntimeError(r['detail'])
    return None if r['verdict'] in ('ok', 'unchanged-ok', 'refused') else f'{r["verdict"]}: {r["detail"]}'
