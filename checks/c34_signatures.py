"""C34  Call-signature rewrites preserve behaviour.

ENUM (deviation-bounded) + gfortran differential, in the shape of c29_associates.py.  Five template
families, one per rewrite named in the statement; every family has its own base call tree, its own
harness-owned driver PROGRAM and a menu of feature blocks (one per branch / shortcut visible in the code):

DTA  loki/transformations/transform_derived_types.py :: DerivedTypeArgumentsTransformation
     real Scheduler over  kern (role driver, free subroutine) -> kmod#lev1 [-> kmod#lev2]  (2- and 3-level trees),
     all_derived_types in {False, True}.
       expand_derived_type_member        D_scalar_write, D_array_read, D_array_write, D_nested_scalar, D_nested_array,
                                         D_nested_int, D_array_of_dt (no expansion), D_nested_array_of_dt (partial)
       assumed_dim_or_none (bounds!)     D_array_lb0, D_alloc, D_alloc_lb0, D_alloc_size, D_array_whole
       _get_expanded_kernel_var_type     D_two_parents (intent in vs inout), D_kind (kind import via add_new_imports_kernel)
       non_expansion_map / whole use     D_whole_needed, D_spec_use (member in a declaration), D_in_associate
       expand_call_arguments             K_keyword, K_mixed_keyword, K_call_twice, K_elem_actual, K_comp_actual, K_function,
                                         K_function_keyword
       successors / 3-level              M_mid_use, M_mid_keyword, M_mid_comp_down   (depth 3 only)
TBP  same file :: TypeboundProcedureCallTransformation (duplicate_typebound_kernels in {False, True}), and the pipeline
     TBP -> DTA(all_derived_types=True); real Scheduler over kern -> tbmod/tbmod2 procedures (2 levels; T_nested: 3 levels).
       bind_names / same-name binding    base (renamed binding), T_same_name
       pass attribute ignored?           T_nopass, T_pass_named
       InlineCall branch                 T_function, T_function_in_cond
       generic (documented: unresolved)  T_generic (not generated for the pipeline variant: DTA needs plain calls)
       parent chain                      T_on_component, T_on_array_elem, T_nested, T_in_associate
       arguments                         T_keyword, T_expr_arg, T_no_intent_class (fix_intent)
SEQ  loki/transformations/sanitise/sequence_associations.py :: do_resolve_sequence_association and the
     SequenceAssociationTransformation wrapper (direct, calls enriched through the enclosing module).
       new_dims from arg.shape           S_start_not_one, S_rank1_actual, S_rank1_lb0, S_rank3_actual, S_component
       element sequence spans columns    S_span_columns, S_span_partial, S_assumed_size_span
       n_dims = len(dummy.shape)         S_rank2_dummy, S_rank2_from_rank1, S_rank2_start_not_one, S_dummy_lb, S_rank2_lb_dummy,
                                         S_assumed_size
       call.arg_map incl. keywords       S_keyword, S_keyword_reordered, S_two_elem_args
       not applicable (controls)         S_scalar_dummy, S_section_actual
       context                           S_loop_index, S_expr_index
SHP  loki/transformations/argument_shape.py :: ArgumentArrayShapeAnalysis then ExplicitArgumentArrayShapeTransformation,
     real Scheduler over kern -> kmod#lev1 [-> kmod#lev2] (2- and 3-level).
       "passing the full value array"    H_lb0_actual, H_section_actual (rank preserved, extent differs), H_2d_full, H_const_shape
       "sub-array of val"                H_partial_2d, H_partial_2d_range
       assumed size branch               H_assumed_size
       new dimension arguments           H_expr_shape, H_other_dim_var, H_dim_name_clash, H_callee_has_dim, H_keyword
       first call wins                   H_two_calls_same, H_two_calls_differ
       callee uses the bounds            H_whole_array_op, H_ubound
       shape from a typedef              H_component_actual
       3-level                           H_mid_section (depth 3 only)
DUP  loki/transformations/routine_signatures.py :: RemoveDuplicateArgs (rename_common +-, recurse_to_kernels +-),
     real Scheduler over kern -> kmod#lev1 [-> kmod#lev2].
       arg_map keyed by the actual       U_scalar_dup (dummy used in a declaration), U_component_dup, U_literal_dup, U_expr_dup,
                                         U_element_dup, U_element_nodup (control), U_section_dup, U_no_dup (control)
       first dummy's declaration kept    U_diff_lb, U_diff_rank  (same actual, read-only, dummies used asymmetrically)
       kwarguments                       U_keyword, U_mixed_keyword
       rename_common                     U_prefix_names, U_rename_clash
       combine                           U_three_dups, U_two_groups, U_called_twice_same, U_two_callees
       recursion                         U_dup_passed_down (3-level)
     The documented restriction ("won't work properly for multiple calls to the same routine with differing duplicate
     arguments") is respected: such programs are never generated.

Scheduler-driven families: `apply` writes the case's sources into a scratch directory, builds a real
`Scheduler` (SchedulerConfig as in loki/transformations/tests: default role kernel / expand / strict, routine
`kern` as driver), runs `scheduler.process(transformation=...)` for every transformation of the variant and
returns the `to_fortran()` of every processed file.
Oracle: transformed sources build with gfortran -O0 -fcheck=bounds and print exactly the original output for
every input of the grid (kern's actual arrays are slices of larger driver-owned buffers that are printed in
full, so that an out-of-extent write is observable and deterministic).
Refusals (NotImplementedError / "not supported") are counted, never violations; a warning followed by wrong code is a violation.
"""
import os
import re
import shutil
import tempfile

from vf import xform, xfast
from vf.explore import deviations

PROPERTY = 'C34'
LEVEL = 'exploration'
META = dict(
    engine='enum',
    technique='deviation-bounded exhaustive template enumeration x all transformation variants (real Scheduler for the '
              'inter-procedural ones); gfortran differential run (original vs transformed call tree)',
    level_text='all combinations of <= d feature blocks per family x {DerivedTypeArguments(all_derived_types +-, 2/3-level), '
               'TypeboundProcedureCall(duplicate +-) and TBP->DTA, sequence association, ArgumentArrayShapeAnalysis+Explicit'
               'ArgumentArrayShape (2/3-level), RemoveDuplicateArgs(rename_common +-, recurse +-)}: transformed caller and '
               'callee compile and together print the original output on every input; exhaustive for d',
    level_note='gfortran 12 -O0 -fcheck=bounds is the semantics; exact dyadic reals so no tolerance; original program must '
               'build (else HARNESS-ERROR); Scheduler discovery/enrichment is part of the system under test',
)

# =============================================================================================== DTA
DTA_TYMOD = '''module tymod
  implicit none
  integer, parameter :: rk = selected_real_kind(13)
  type :: st
    real :: x
    real :: v(4)
    integer :: m
  end type st
  type :: tt
    real :: x
    real :: w(3)
    real :: arr(0:2)
    real(kind=rk) :: xk
    type(st) :: s
    type(st) :: sa(2)
    real, allocatable :: al(:)
    real, allocatable :: al0(:)
  end type tt
end module tymod
'''

DTA_DECL = '''    integer, intent(in) :: n
    type(tt), intent(inout) :: t
    type(tt), intent(in) :: u
    type(tt), intent(inout) :: ts(2)
    real, intent(inout) :: r
    integer :: i
    type(tt) :: tl
'''

DTA_EXTRA = {
    'lev1s': '''  subroutine lev1s(s, r)
    type(st), intent(inout) :: s
    real, intent(inout) :: r
    r = r + s%v(1)
    s%x = s%x + 1.0
  end subroutine lev1s
''',
    'lev2s': '''  subroutine lev2s(s, r)
    type(st), intent(inout) :: s
    real, intent(inout) :: r
    r = r + s%v(2)
    s%m = s%m + 1
  end subroutine lev2s
''',
    'flev': '''  function flev(t) result(y)
    type(tt), intent(in) :: t
    real :: y
    y = t%w(1) + t%s%x
  end function flev
''',
}

# leaf = statements in the leaf routine; kern = statements in kern after the base call; mid = statements in lev1 when depth 3
DTA_BLOCKS = {
    'D_scalar_write': dict(leaf='    t%x = t%x * 2.0 + 1.0\n'),
    'D_array_read': dict(leaf='    r = r + t%w(2)\n'),
    'D_array_write': dict(leaf='    t%w(3) = t%w(1) + 1.0\n'),
    'D_array_lb0': dict(leaf='    t%arr(0) = t%arr(2) + 1.0\n    r = r + t%arr(0)\n'),
    'D_array_whole': dict(leaf='    t%w = t%w * 2.0\n    r = r + sum(t%w)\n'),
    'D_nested_scalar': dict(leaf='    t%s%x = t%s%x + 0.5\n'),
    'D_nested_array': dict(leaf='    t%s%v(2) = t%s%v(4) + 1.0\n'),
    'D_nested_int': dict(leaf='    t%s%m = t%s%m + n\n'),
    'D_alloc': dict(leaf='    do i = 1, n\n      t%al(i) = t%al(i) + real(i)\n    end do\n'),
    'D_alloc_lb0': dict(leaf='    t%al0(0) = t%al0(n) * 2.0\n'),
    'D_alloc_size': dict(leaf='    r = r + real(size(t%al))\n'),
    'D_kind': dict(leaf='    t%xk = t%xk * 2.0\n'),
    'D_two_parents': dict(leaf='    r = r + u%x * 2.0 + u%w(1)\n    t%w(1) = u%w(2)\n'),
    'D_whole_needed': dict(leaf='    tl = t\n    r = r + tl%w(2)\n'),
    'D_array_of_dt': dict(leaf='    ts(2)%x = ts(1)%x + 1.0\n'),
    'D_nested_array_of_dt': dict(leaf='    t%sa(2)%x = t%sa(1)%x + 1.0\n    t%sa(1)%v(3) = 4.0\n'),
    'D_spec_use': dict(leaf='    loc(1) = 2.0\n    r = r + loc(1)\n', leafdecl='    real :: loc(t%s%m)\n'),
    'D_in_associate': dict(leaf='    associate (xx => t%x)\n      xx = xx + 1.0\n    end associate\n'),
    'K_keyword': dict(kern='  call lev1(n=n, t=t, u=u, ts=ts, r=r)\n'),
    'K_mixed_keyword': dict(kern='  call lev1(n, t, r=r, ts=ts, u=u)\n'),
    'K_call_twice': dict(kern='  call lev1(n, u, t, ts, r)\n'),
    'K_elem_actual': dict(kern='  tv(1) = t\n  tv(2) = u\n  call lev1(n, tv(1), tv(2), ts, r)\n  r = r + tv(1)%x + tv(1)%w(3)\n'),
    'K_comp_actual': dict(kern='  call lev1s(t%s, r)\n', need=['lev1s']),
    'K_function': dict(kern='  r = r + flev(t)\n', need=['flev']),
    'K_function_keyword': dict(kern='  r = r + flev(t=u) * 2.0\n', need=['flev']),
    'M_mid_use': dict(mid='    t%w(1) = t%w(1) + 0.5\n    r = r + t%x\n', depth3=True),
    'M_mid_keyword': dict(midcall='    call lev2(n=n, t=t, u=u, ts=ts, r=r)\n', depth3=True),
    'M_mid_comp_down': dict(mid='    call lev2s(t%s, r)\n', need=['lev2s'], depth3=True),
}

DTA_DRIVER = '''program drv
  use tymod
  implicit none
  interface
    subroutine kern(n, t, u, ts, r)
      use tymod, only: tt
      integer, intent(in) :: n
      type(tt), intent(inout) :: t, u
      type(tt), intent(inout) :: ts(2)
      real, intent(inout) :: r
    end subroutine kern
  end interface
  integer :: n, g
  type(tt) :: t, u, ts(2)
  real :: r
  do g = 1, 3
    n = 3 + g
    call init(t, 0.5)
    call init(u, -1.0)
    ts(1) = u
    ts(2) = t
    ts(1)%x = 4.0
    r = real(g) - 0.5
    call kern(n, t, u, ts, r)
    write(*,'(A,I0)') 'G', g
    call show('T', t)
    call show('U', u)
    call show('TS1', ts(1))
    call show('TS2', ts(2))
    write(*,'(A,1X,ES14.7)') 'R', r
  end do
contains
  subroutine init(x, off)
    type(tt), intent(out) :: x
    real, intent(in) :: off
    integer :: e
    x%x = 0.5 * real(g) + off
    x%w = (/ 1.0, 2.0, 4.0 /) + off
    x%arr = (/ 0.5, 1.5, -2.0 /) * real(g)
    x%xk = 0.25_rk + real(off, rk)
    x%s%x = 1.5 + off
    x%s%v = (/ 0.5, 1.5, -1.0, 2.0 /)
    x%s%m = g
    x%sa(1) = x%s
    x%sa(2) = x%s
    x%sa(2)%x = -0.5
    allocate(x%al(n), x%al0(0:n))
    do e = 1, n
      x%al(e) = real(e) * 0.5 + off
    end do
    do e = 0, n
      x%al0(e) = real(e) - 0.25
    end do
  end subroutine init
  subroutine show(tag, x)
    character(len=*), intent(in) :: tag
    type(tt), intent(in) :: x
    write(*,'(A,30(1X,ES14.7))') tag, x%x, x%w, x%arr, real(x%xk), x%s%x, x%s%v, x%sa(1)%x, x%sa(1)%v, x%sa(2)%x, x%sa(2)%v
    write(*,'(A,3(1X,I0))') tag // 'M', x%s%m, x%sa(1)%m, x%sa(2)%m
    write(*,'(A,30(1X,ES14.7))') tag // 'AL', x%al, x%al0
    write(*,'(A,4(1X,I0))') tag // 'B', lbound(x%al, 1), ubound(x%al, 1), lbound(x%al0, 1), ubound(x%al0, 1)
  end subroutine show
end program drv
'''


def _routine(name, decl, body, args='n, t, u, ts, r'):
    return f'  subroutine {name}({args})\n{decl}{body}  end subroutine {name}\n'


def dta_sources(switches, depth):
    blocks = [DTA_BLOCKS[k] for k in DTA_BLOCKS if k in switches]
    leaf = '    r = r + t%x\n' + ''.join(b.get('leaf', '') for b in blocks)
    leafdecl = DTA_DECL + ''.join(b.get('leafdecl', '') for b in blocks)
    need = sorted({n for b in blocks for n in b.get('need', [])})
    kmod = 'module kmod\n  use tymod, only: st, tt\n  implicit none\ncontains\n'
    if depth == 2:
        kmod += _routine('lev1', leafdecl, leaf)
    else:
        midcall = ''.join(b.get('midcall', '') for b in blocks) or '    call lev2(n, t, u, ts, r)\n'
        kmod += _routine('lev1', DTA_DECL, ''.join(b.get('mid', '') for b in blocks) + midcall)
        kmod += _routine('lev2', leafdecl, leaf)
    kmod += ''.join(DTA_EXTRA[n] for n in need) + 'end module kmod\n'
    uses = ', '.join(['lev1'] + [n for n in need if n != 'lev2s'])
    kern = ('subroutine kern(n, t, u, ts, r)\n  use tymod, only: tt\n  use kmod, only: ' + uses + '\n  implicit none\n'
            '  integer, intent(in) :: n\n  type(tt), intent(inout) :: t, u\n  type(tt), intent(inout) :: ts(2)\n'
            '  real, intent(inout) :: r\n  type(tt) :: tv(2)\n  call lev1(n, t, u, ts, r)\n')
    kern += ''.join(b.get('kern', '') for b in blocks) + 'end subroutine kern\n'
    return [['tymod.f90', DTA_TYMOD], ['kmod.f90', kmod], ['kern.f90', kern]], DTA_DRIVER


# =============================================================================================== TBP
TBP_MOD1 = '''module tbmod
  implicit none
  type :: st
    real :: x
    integer :: m
  contains
    procedure :: add => st_add
    procedure :: bump
    procedure, nopass :: helper => st_helper
    procedure, pass(me) :: addto
    procedure :: getx
    procedure :: noint
    procedure :: addr => st_add_r
    procedure :: addi => st_add_i
    generic :: addg => addr, addi
  end type st
contains
  subroutine st_add(this, y)
    class(st), intent(inout) :: this
    real, intent(in) :: y
    this%x = this%x + y
  end subroutine st_add
  subroutine bump(this)
    class(st), intent(inout) :: this
    this%m = this%m + 1
  end subroutine bump
  subroutine st_helper(z, y)
    real, intent(inout) :: z
    real, intent(in) :: y
    z = z + y * 2.0
  end subroutine st_helper
  subroutine addto(y, me)
    real, intent(in) :: y
    class(st), intent(inout) :: me
    me%x = me%x + y * 0.5
  end subroutine addto
  function getx(this) result(v)
    class(st), intent(in) :: this
    real :: v
    v = this%x * 2.0
  end function getx
  subroutine noint(this, y)
    class(st) :: this
    real, intent(in) :: y
    this%x = this%x - y
  end subroutine noint
  subroutine st_add_r(this, y)
    class(st), intent(inout) :: this
    real, intent(in) :: y
    this%x = this%x + y * 4.0
  end subroutine st_add_r
  subroutine st_add_i(this, k)
    class(st), intent(inout) :: this
    integer, intent(in) :: k
    this%m = this%m + k
  end subroutine st_add_i
end module tbmod
'''

TBP_MOD2 = '''module tbmod2
  use tbmod, only: st
  implicit none
  type :: tt
    real :: x
    type(st) :: s
    type(st) :: sa(2)
%(bind)send type tt
%(proc)send module tbmod2
'''
# the bound procedure of tt exists only together with its only caller (block T_nested): every routine of a case is
# part of the call tree the Scheduler processes, as the statement speaks about caller and callee *together*
TBP_MOD2_BIND = '  contains\n    procedure :: outer => tt_outer\n  '
TBP_MOD2_PROC = '''contains
  subroutine tt_outer(this, y)
    class(tt), intent(inout) :: this
    real, intent(in) :: y
    call this%s%add(y)
    this%x = this%x + this%s%getx()
  end subroutine tt_outer
'''

TBP_BLOCKS = {
    'T_same_name': '  call s%bump()\n',
    'T_nopass': '  call s%helper(r, 0.5)\n',
    'T_pass_named': '  call s%addto(2.0)\n',
    'T_function': '  r = r + s%getx()\n',
    'T_function_in_cond': '  if (s%getx() > 1.0) then\n    r = r + 1.0\n  else\n    r = r - 1.0\n  end if\n',
    'T_generic': '  call s%addg(1.0)\n  call s%addg(2)\n',
    'T_on_component': '  call t%s%add(0.5)\n',
    'T_on_array_elem': '  call t%sa(2)%add(0.25)\n',
    'T_nested': '  call t%outer(1.0)\n',
    'T_in_associate': '  associate (p => t%s)\n    call p%add(1.0)\n  end associate\n',
    'T_keyword': '  call s%add(y=2.0)\n',
    'T_expr_arg': '  do i = 1, 2\n    call s%add(real(i) * r)\n  end do\n',
    'T_no_intent_class': '  call s%noint(0.75)\n',
}

TBP_DRIVER = '''program drv
  use tbmod, only: st
  use tbmod2, only: tt
  implicit none
  interface
    subroutine kern(n, s, t, r)
      use tbmod, only: st
      use tbmod2, only: tt
      integer, intent(in) :: n
      type(st), intent(inout) :: s
      type(tt), intent(inout) :: t
      real, intent(inout) :: r
    end subroutine kern
  end interface
  integer :: n, g
  type(st) :: s
  type(tt) :: t
  real :: r
  do g = 1, 3
    n = 3 + g
    s%x = real(g) * 0.5 - 1.0
    s%m = g
    t%x = 1.5 * real(g)
    t%s%x = 0.25 * real(g)
    t%s%m = 2
    t%sa(1) = t%s
    t%sa(2) = s
    r = real(g) - 1.5
    call kern(n, s, t, r)
    write(*,'(A,I0)') 'G', g
    write(*,'(A,8(1X,ES14.7))') 'X', s%x, t%x, t%s%x, t%sa(1)%x, t%sa(2)%x, r
    write(*,'(A,4(1X,I0))') 'M', s%m, t%s%m, t%sa(1)%m, t%sa(2)%m
  end do
end program drv
'''


def tbp_sources(switches):
    body = '  call s%add(1.5)\n' + ''.join(TBP_BLOCKS[k] for k in TBP_BLOCKS if k in switches)
    kern = ('subroutine kern(n, s, t, r)\n  use tbmod, only: st\n  use tbmod2, only: tt\n  implicit none\n'
            '  integer, intent(in) :: n\n  type(st), intent(inout) :: s\n  type(tt), intent(inout) :: t\n'
            '  real, intent(inout) :: r\n  integer :: i\n' + body + 'end subroutine kern\n')
    nested = 'T_nested' in switches
    mod2 = TBP_MOD2 % dict(bind=TBP_MOD2_BIND if nested else '  ', proc=TBP_MOD2_PROC if nested else '')
    return [['tbmod.f90', TBP_MOD1], ['tbmod2.f90', mod2], ['kern.f90', kern]], TBP_DRIVER


# =============================================================================================== SEQ
SEQ_HEAD = '''module smod
  implicit none
  type :: tw
    real :: w(3)
  end type tw
contains
  subroutine s1(d, m)
    integer, intent(in) :: m
    real, intent(inout) :: d(m)
    integer :: i
    do i = 1, m
      d(i) = d(i) * 2.0 + real(i)
    end do
  end subroutine s1
  subroutine s1lb(d, m)
    integer, intent(in) :: m
    real, intent(inout) :: d(0:m - 1)
    d(0) = d(m - 1) + 0.5
  end subroutine s1lb
  subroutine s2(d, m, k)
    integer, intent(in) :: m, k
    real, intent(inout) :: d(m, k)
    d(1, k) = d(m, 1) + 1.0
    d(m, k) = d(m, k) * 2.0
  end subroutine s2
  subroutine s2lb(d, m, k)
    integer, intent(in) :: m, k
    real, intent(inout) :: d(0:m - 1, 2:k + 1)
    d(0, 2) = d(m - 1, k + 1) + 0.25
  end subroutine s2lb
  subroutine ssc(z)
    real, intent(inout) :: z
    z = z + 8.0
  end subroutine ssc
  subroutine sas(d, m)
    integer, intent(in) :: m
    real, intent(inout) :: d(*)
    d(m) = d(1) + d(m)
  end subroutine sas
  subroutine s11(d, e, m)
    integer, intent(in) :: m
    real, intent(inout) :: d(m)
    real, intent(in) :: e(m)
    d(m) = d(m) + e(1)
  end subroutine s11
  subroutine kern(n, a2, a3, b, c0, t, r)
    integer, intent(in) :: n
    real, intent(inout) :: a2(n, 3), a3(2, n, 2), b(n), c0(0:n)
    type(tw), intent(inout) :: t
    real, intent(inout) :: r
    integer :: j, k
    k = 1
    call s1(a2(1, 2), n)
'''
SEQ_TAIL = '''    r = r + a2(1, 2)
  end subroutine kern
end module smod
'''

SEQ_BLOCKS = {
    'S_start_not_one': '    call s1(a2(2, 1), n - 1)\n',
    'S_span_columns': '    call s1(a2(1, 1), 2 * n)\n',
    'S_span_partial': '    call s1(a2(2, 2), n)\n',
    'S_rank1_actual': '    call s1(b(3), 2)\n',
    'S_rank1_lb0': '    call s1(c0(1), n)\n    call s1(c0(0), 2)\n',
    'S_dummy_lb': '    call s1lb(a2(1, 3), n)\n',
    'S_rank2_dummy': '    call s2(a2(1, 2), n, 2)\n',
    'S_rank2_from_rank1': '    call s2(b(1), 2, 2)\n',
    'S_rank2_start_not_one': '    call s2(a2(2, 1), n - 1, 2)\n',
    'S_rank2_lb_dummy': '    call s2lb(a2(1, 2), n, 2)\n',
    'S_rank3_actual': '    call s1(a3(1, 2, 1), 2)\n    call s2(a3(1, 1, 2), 2, n)\n',
    'S_keyword': '    call s1(d=a2(1, 3), m=n)\n',
    'S_keyword_reordered': '    call s1(m=n, d=a2(1, 3))\n',
    'S_scalar_dummy': '    call ssc(b(2))\n',
    'S_section_actual': '    call s1(a2(:, 3), n)\n',
    'S_component': '    call s1(t%w(2), 2)\n',
    'S_loop_index': '    do j = 1, 3\n      call s1(a2(1, j), n)\n    end do\n',
    'S_expr_index': '    call s1(a2(k + 1, 2), n - k)\n',
    'S_assumed_size': '    call sas(a2(1, 2), n)\n',
    'S_assumed_size_span': '    call sas(a2(1, 1), 2 * n)\n',
    'S_two_elem_args': '    call s11(a2(1, 1), a2(1, 2), n)\n',
}

SEQ_DRIVER = '''program drv
  use smod
  implicit none
  integer :: n, g, e, f
  real, allocatable :: a2(:, :), a3(:, :, :), b(:), c0(:)
  type(tw) :: t
  real :: r
  do g = 1, 3
    n = 3 + g
    allocate(a2(n, 3), a3(2, n, 2), b(n), c0(0:n))
    do e = 1, n
      b(e) = real(mod(e * g, 4)) * 0.25 + 1.0
      do f = 1, 3
        a2(e, f) = real(e) * 0.5 - real(f)
      end do
      a3(1, e, 1) = real(e)
      a3(2, e, 1) = -real(e) * 0.5
      a3(1, e, 2) = 0.25 * real(e)
      a3(2, e, 2) = 2.0
    end do
    do e = 0, n
      c0(e) = real(e) - 0.5
    end do
    t%w = (/ 1.0, -2.0, 0.5 /)
    r = real(g) - 0.5
    call kern(n, a2, a3, b, c0, t, r)
    write(*,'(A,I0)') 'G', g
    write(*,'(A,30(1X,ES14.7))') 'A2', a2
    write(*,'(A,30(1X,ES14.7))') 'A3', a3
    write(*,'(A,30(1X,ES14.7))') 'B', b
    write(*,'(A,30(1X,ES14.7))') 'C', c0
    write(*,'(A,30(1X,ES14.7))') 'T', t%w, r
    deallocate(a2, a3, b, c0)
  end do
end program drv
'''


def seq_sources(switches):
    text = SEQ_HEAD + ''.join(SEQ_BLOCKS[k] for k in SEQ_BLOCKS if k in switches) + SEQ_TAIL
    return [['smod.f90', text]], SEQ_DRIVER


# =============================================================================================== SHP
SHP_TYMOD = '''module tymod
  implicit none
  type :: tw
    real :: w(3)
  end type tw
end module tymod
'''

SHP_EXTRA = {
    'lev12': '''  subroutine lev12(d2, r)
    real, intent(inout) :: d2(:, :)
    real, intent(inout) :: r
    d2(size(d2, 1), size(d2, 2)) = d2(1, 1) + 1.0
    r = r + d2(1, 2)
  end subroutine lev12
''',
    'levas': '''  subroutine levas(d, m, r)
    integer, intent(in) :: m
    real, intent(inout) :: d(*)
    real, intent(inout) :: r
    d(m) = d(1) + 2.0
    r = r + d(2)
  end subroutine levas
''',
    'lev1n': '''  subroutine lev1n(n, d, r)
    integer, intent(in) :: n
    real, intent(inout) :: d(:)
    real, intent(inout) :: r
    d(n) = d(n) + 1.0
    r = r + d(1)
  end subroutine lev1n
''',
    'lev1c': '''  subroutine lev1c(d, r)
    real, intent(inout) :: d(:)
    real, intent(inout) :: r
    integer :: n
    n = 2
    d(n) = d(n) + real(n)
    r = r + d(1)
  end subroutine lev1c
''',
}

# kern: statements in kern;  leaf: statements added to every copy of the leaf (the routine with the assumed-shape dummy d);
# copy: name of a private copy of the leaf, so that every callee has call sites of one shape only (except H_two_calls_differ)
SHP_BLOCKS = {
    'H_lb0_actual': dict(kern='  call lv_lb0(c0, r)\n', copy='lv_lb0'),
    'H_section_actual': dict(kern='  call lv_sec(a(2:n), r)\n', copy='lv_sec'),
    'H_partial_2d': dict(kern='  call lv_p2d(a2(:, 2), r)\n', copy='lv_p2d'),
    'H_partial_2d_range': dict(kern='  call lv_p2r(a2(2:n, 1), r)\n', copy='lv_p2r'),
    'H_2d_full': dict(kern='  call lev12(a2, r)\n', need=['lev12']),
    'H_const_shape': dict(kern='  call lv_cst(q, r)\n', copy='lv_cst'),
    'H_expr_shape': dict(kern='  loc = 0.5\n  call lv_expr(loc, r)\n  r = r + loc(n + 1)\n', copy='lv_expr'),
    'H_other_dim_var': dict(kern='  lm = 1.5\n  call lv_m(lm, r)\n  r = r + lm(m)\n', copy='lv_m'),
    'H_dim_name_clash': dict(kern='  call lev1c(a, r)\n', need=['lev1c']),
    'H_callee_has_dim': dict(kern='  call lev1n(n, a, r)\n', need=['lev1n']),
    'H_keyword': dict(kern='  call lv_kw(r=r, d=a)\n', copy='lv_kw'),
    'H_two_calls_same': dict(kern='  call lev1(a, r)\n'),
    'H_two_calls_differ': dict(kern='  call lv_two(q, r)\n  call lv_two(a, r)\n', copy='lv_two'),
    'H_whole_array_op': dict(leaf='    d = d * 2.0\n    r = r + sum(d)\n'),
    'H_ubound': dict(leaf='    r = r + real(ubound(d, 1)) + real(lbound(d, 1))\n'),
    'H_assumed_size': dict(kern='  call levas(a, n, r)\n', need=['levas']),
    'H_component_actual': dict(kern='  call lv_cmp(t%w, r)\n', copy='lv_cmp'),
    'H_mid_section': dict(midcall='    call lev2(d(2:), r)\n', depth3=True),
}

SHP_LEAF_DECL = '    real, intent(inout) :: d(:)\n    real, intent(inout) :: r\n    integer :: i\n'
SHP_LEAF = '    do i = 1, size(d)\n      d(i) = d(i) + real(i)\n    end do\n    r = r + d(1)\n'

SHP_DRIVER = '''program drv
  use tymod
  implicit none
  interface
    subroutine kern(n, m, a, c0, a2, q, t, r)
      use tymod, only: tw
      integer, intent(in) :: n, m
      real, intent(inout) :: a(n), c0(0:n), a2(n, 3), q(4)
      type(tw), intent(inout) :: t
      real, intent(inout) :: r
    end subroutine kern
  end interface
  integer :: n, g, e
  real :: abig(12), cbig(12), a2big(40), qbig(8)
  type(tw) :: t
  real :: r
  do g = 1, 3
    n = 3 + g
    do e = 1, 12
      abig(e) = real(e) * 0.5 - 1.0
      cbig(e) = real(e) - 0.5
    end do
    do e = 1, 40
      a2big(e) = real(mod(e * g, 8)) * 0.25 - 1.0
    end do
    do e = 1, 8
      qbig(e) = real(e) * 0.75
    end do
    t%w = (/ 1.0, -2.0, 0.5 /)
    r = real(g) - 0.5
    call kern(n, n - 1, abig, cbig, a2big, qbig, t, r)
    write(*,'(A,I0)') 'G', g
    write(*,'(A,40(1X,ES14.7))') 'A', abig
    write(*,'(A,40(1X,ES14.7))') 'C', cbig
    write(*,'(A,40(1X,ES14.7))') 'A2', a2big
    write(*,'(A,40(1X,ES14.7))') 'Q', qbig
    write(*,'(A,40(1X,ES14.7))') 'T', t%w, r
  end do
end program drv
'''


def shp_sources(switches, depth):
    blocks = [SHP_BLOCKS[k] for k in SHP_BLOCKS if k in switches]
    need = sorted({n for b in blocks for n in b.get('need', [])})
    leaf = SHP_LEAF + ''.join(b.get('leaf', '') for b in blocks)
    kmod = 'module kmod\n  implicit none\ncontains\n'
    if depth == 2:
        kmod += _routine('lev1', SHP_LEAF_DECL, leaf, args='d, r')
    else:
        midcall = ''.join(b.get('midcall', '') for b in blocks) or '    call lev2(d, r)\n'
        kmod += _routine('lev1', SHP_LEAF_DECL, '    r = r + d(2)\n' + midcall, args='d, r')
        kmod += _routine('lev2', SHP_LEAF_DECL, leaf, args='d, r')
    copies = [b['copy'] for b in blocks if b.get('copy')]
    kmod += ''.join(_routine(c, SHP_LEAF_DECL, leaf, args='d, r') for c in copies)
    kmod += ''.join(SHP_EXTRA[n] for n in need) + 'end module kmod\n'
    kern = ('subroutine kern(n, m, a, c0, a2, q, t, r)\n  use tymod, only: tw\n  use kmod, only: ' + ', '.join(['lev1'] + need + copies) +
            '\n  implicit none\n  integer, intent(in) :: n, m\n  real, intent(inout) :: a(n), c0(0:n), a2(n, 3), q(4)\n'
            '  type(tw), intent(inout) :: t\n  real, intent(inout) :: r\n  real :: loc(n + 1), lm(m)\n  call lev1(a, r)\n')
    kern += ''.join(b.get('kern', '') for b in blocks) + '  r = r + real(n) + real(m)\nend subroutine kern\n'
    return [['tymod.f90', SHP_TYMOD], ['kmod.f90', kmod], ['kern.f90', kern]], SHP_DRIVER


# =============================================================================================== DUP
DUP_TYMOD = '''module tymod
  implicit none
  type :: tx
    real :: x
    real :: y
  end type tx
end module tymod
'''

DUP_ROUTINES = {
    'lev1': '''  subroutine lev1(m, x, y, r)
    integer, intent(in) :: m
    real, intent(in) :: x(m), y(m)
    real, intent(inout) :: r
    integer :: i
    do i = 1, m
      r = r + x(i) * y(m + 1 - i) * 0.5
    end do
  end subroutine lev1
''',
    'lev1down': '''  subroutine lev1(m, x, y, r)
    integer, intent(in) :: m
    real, intent(in) :: x(m), y(m)
    real, intent(inout) :: r
    r = r + x(1) - y(m)
    call lev2(m, x, y, r)
  end subroutine lev1
  subroutine lev2(m, p, q, r)
    integer, intent(in) :: m
    real, intent(in) :: p(m), q(m)
    real, intent(inout) :: r
    r = r + p(2) * q(1)
  end subroutine lev2
''',
    'lev1b': '''  subroutine lev1b(m, x, y, r)
    integer, intent(in) :: m
    real, intent(in) :: x(m), y(m)
    real, intent(inout) :: r
    r = r + x(2) - y(1) * 2.0
  end subroutine lev1b
''',
    'lev2s': '''  subroutine lev2s(m1, m2, x, r)
    integer, intent(in) :: m1, m2
    real, intent(in) :: x(m2)
    real, intent(inout) :: r
    integer :: i
    do i = 1, m1
      r = r + x(i) * real(m2 - i)
    end do
  end subroutine lev2s
''',
    'levlb': '''  subroutine levlb(m, x, y, r)
    integer, intent(in) :: m
    real, intent(in) :: x(m), y(0:m - 1)
    real, intent(inout) :: r
    r = r + x(1) * 2.0 + y(0) + y(m - 1)
  end subroutine levlb
''',
    'levrk': '''  subroutine levrk(m, x, y, r)
    integer, intent(in) :: m
    real, intent(in) :: x(m), y(2, 2)
    real, intent(inout) :: r
    r = r + x(m) + y(1, 2) * 2.0
  end subroutine levrk
''',
    'levpre': '''  subroutine levpre(m, zx_a, zx_b, r)
    integer, intent(in) :: m
    real, intent(in) :: zx_a(m), zx_b(m)
    real, intent(inout) :: r
    r = r + zx_a(1) * 2.0 - zx_b(m)
  end subroutine levpre
''',
    'levclash': '''  subroutine levclash(m, zx_a, zx_b, r)
    integer, intent(in) :: m
    real, intent(in) :: zx_a(m), zx_b(m)
    real, intent(inout) :: r
    real :: zx
    zx = zx_a(2) + 1.0
    r = r + zx * 2.0 - zx_b(1)
  end subroutine levclash
''',
    'lev3': '''  subroutine lev3(m, x, y, z, r)
    integer, intent(in) :: m
    real, intent(in) :: x(m), y(m), z(m)
    real, intent(inout) :: r
    r = r + x(1) + y(2) * 2.0 + z(3) * 4.0
  end subroutine lev3
''',
    'lev4': '''  subroutine lev4(m, x, y, v, w, r)
    integer, intent(in) :: m
    real, intent(in) :: x(m), y(m), v(m), w(m)
    real, intent(inout) :: r
    r = r + x(1) * y(2) + v(2) * w(m)
  end subroutine lev4
''',
    'levsc': '''  subroutine levsc(p, q, r)
    real, intent(in) :: p, q
    real, intent(inout) :: r
    r = r + p * 2.0 - q * 0.5
  end subroutine levsc
''',
}

DUP_BLOCKS = {
    'U_scalar_dup': dict(kern='  call lev2s(n, n, b, r)\n', need=['lev2s']),
    'U_diff_lb': dict(kern='  call levlb(n, b, b, r)\n', need=['levlb']),
    'U_diff_rank': dict(kern='  call levrk(n, b, b, r)\n', need=['levrk']),
    'U_keyword': dict(kern='  call lev1(m=n, x=a, y=a, r=r)\n'),
    'U_mixed_keyword': dict(kern='  call lev1(n, a, y=a, r=r)\n'),
    'U_prefix_names': dict(kern='  call levpre(n, b, b, r)\n', need=['levpre']),
    'U_rename_clash': dict(kern='  call levclash(n, b, b, r)\n', need=['levclash']),
    'U_three_dups': dict(kern='  call lev3(n, b, b, b, r)\n', need=['lev3']),
    'U_two_groups': dict(kern='  call lev4(n, a, a, b, b, r)\n', need=['lev4']),
    'U_called_twice_same': dict(kern='  call lev1(n, b, b, r)\n'),
    'U_two_callees': dict(kern='  call lev1b(n, a, a, r)\n', need=['lev1b']),
    'U_component_dup': dict(kern='  call levsc(t%x, t%x, r)\n', need=['levsc']),
    'U_literal_dup': dict(kern='  call levsc(2.0, 2.0, r)\n', need=['levsc']),
    'U_expr_dup': dict(kern='  call levsc(q(1) + 1.0, q(1) + 1.0, r)\n', need=['levsc']),
    'U_element_dup': dict(kern='  call levsc(b(1), b(1), r)\n', need=['levsc']),
    'U_element_nodup': dict(kern='  call levsc(b(1), b(2), r)\n', need=['levsc']),
    'U_section_dup': dict(kern='  call lev1b(n - 1, b(2:n), b(2:n), r)\n', need=['lev1b']),
    'U_no_dup': dict(kern='  call lev1b(n, a, b, r)\n', need=['lev1b']),
    'U_dup_passed_down': dict(down=True),
}
# blocks that call the same callee must use the same duplicate pattern (documented restriction) -> never combined
DUP_EXCLUSIVE = [{'U_literal_dup', 'U_expr_dup', 'U_element_dup', 'U_element_nodup', 'U_component_dup'},
                 {'U_two_callees', 'U_section_dup', 'U_no_dup'}]

DUP_DRIVER = '''program drv
  use tymod
  implicit none
  interface
    subroutine kern(n, a, b, q, t, r)
      use tymod, only: tx
      integer, intent(in) :: n
      real, intent(inout) :: a(n), b(n), q(4)
      type(tx), intent(inout) :: t
      real, intent(inout) :: r
    end subroutine kern
  end interface
  integer :: n, g, e
  real :: abig(10), bbig(10), q(4)
  type(tx) :: t
  real :: r
  do g = 1, 3
    n = 3 + g
    do e = 1, 10
      abig(e) = real(e) * 0.5 - 1.0
      bbig(e) = real(mod(e * g, 4)) * 0.25 + 1.0
    end do
    q = (/ real(g) - 1.5, real(g) * 0.75, 0.5, -2.0 /)
    t%x = 0.5 * real(g)
    t%y = -1.0
    r = real(g) - 0.5
    call kern(n, abig, bbig, q, t, r)
    write(*,'(A,I0)') 'G', g
    write(*,'(A,20(1X,ES14.7))') 'A', abig
    write(*,'(A,20(1X,ES14.7))') 'B', bbig
    write(*,'(A,20(1X,ES14.7))') 'Q', q, t%x, t%y, r
  end do
end program drv
'''


def dup_sources(switches):
    blocks = [DUP_BLOCKS[k] for k in DUP_BLOCKS if k in switches]
    need = sorted({n for b in blocks for n in b.get('need', [])})
    down = any(b.get('down') for b in blocks)
    kmod = 'module kmod\n  implicit none\ncontains\n' + DUP_ROUTINES['lev1down' if down else 'lev1']
    kmod += ''.join(DUP_ROUTINES[n] for n in need) + 'end module kmod\n'
    kern = ('subroutine kern(n, a, b, q, t, r)\n  use tymod, only: tx\n  use kmod, only: ' + ', '.join(['lev1'] + need) +
            '\n  implicit none\n  integer, intent(in) :: n\n  real, intent(inout) :: a(n), b(n), q(4)\n'
            '  type(tx), intent(inout) :: t\n  real, intent(inout) :: r\n  call lev1(n, b, b, r)\n')
    kern += ''.join(b.get('kern', '') for b in blocks) + '  r = r * 0.5\nend subroutine kern\n'
    return [['tymod.f90', DUP_TYMOD], ['kmod.f90', kmod], ['kern.f90', kern]], DUP_DRIVER


# =============================================================================================== cases
FAMILIES = {
    'dta': dict(blocks=DTA_BLOCKS, variants=[('dta', dict(all_derived_types=a, depth=dp)) for dp in (2, 3) for a in (False, True)]),
    'tbp': dict(blocks=TBP_BLOCKS, variants=[('tbp', dict(duplicate_typebound_kernels=False)),
                                             ('tbp', dict(duplicate_typebound_kernels=True)),
                                             ('tbp+dta', dict(all_derived_types=True))]),
    'seq': dict(blocks=SEQ_BLOCKS, variants=[('seq', {}), ('seqtrafo', dict(resolve_sequence_associations=True))]),
    'shp': dict(blocks=SHP_BLOCKS, variants=[('shp', dict(depth=2)), ('shp', dict(depth=3))]),
    'dup': dict(blocks=DUP_BLOCKS, variants=[('dup', dict(rename_common=False, recurse_to_kernels=True)),
                                             ('dup', dict(rename_common=True, recurse_to_kernels=True)),
                                             ('dup', dict(rename_common=False, recurse_to_kernels=False))]),
}


def _allowed(fam, xf, opts, switches):
    sw = set(switches)
    blocks = FAMILIES[fam]['blocks']
    if fam in ('dta', 'shp') and opts['depth'] == 2 and any(isinstance(blocks[k], dict) and blocks[k].get('depth3') for k in sw):
        return False
    if xf == 'tbp+dta' and 'T_generic' in sw:
        return False
    if fam == 'dup' and any(len(sw & g) > 1 for g in DUP_EXCLUSIVE):
        return False
    return True


def make_cases(d):
    cases = []
    for fam, spec in FAMILIES.items():
        names = list(spec['blocks'])
        for dev in deviations({k: [True] for k in names}, d):
            switches = [k for k in names if k in dev]
            for xf, opts in spec['variants']:
                if not _allowed(fam, xf, opts, switches):
                    continue
                if fam == 'dta':
                    sources, driver = dta_sources(switches, opts['depth'])
                elif fam == 'tbp':
                    sources, driver = tbp_sources(switches)
                elif fam == 'seq':
                    sources, driver = seq_sources(switches)
                elif fam == 'shp':
                    sources, driver = shp_sources(switches, opts['depth'])
                else:
                    sources, driver = dup_sources(switches)
                oid = ','.join(f'{k}={v}' for k, v in sorted(opts.items()))
                cases.append(dict(id=f'{"+".join(["base"] + switches)}|{xf}({oid})', sources=sources, driver=driver,
                                  xform=xf, opts=opts, switches=switches, family=fam))
    return cases


# =============================================================================================== apply
SCHED_CONFIG = {
    'default': {'mode': 'idem', 'role': 'kernel', 'expand': True, 'strict': True, 'enable_imports': True},
    'routines': {'kern': {'role': 'driver', 'expand': True}},
}


def scheduler_apply(case, transformations):
    """write sources to a scratch dir, run a real Scheduler with each transformation, read back every file"""
    from loki import Frontend
    from loki.batch import Scheduler, SchedulerConfig
    base = '/dev/shm' if os.path.isdir('/dev/shm') and os.access('/dev/shm', os.W_OK) else None
    tmp = tempfile.mkdtemp(prefix='c34_', dir=base)
    try:
        for fname, text in case['sources']:
            with open(os.path.join(tmp, fname), 'w') as fh:
                fh.write(text)
        config = SchedulerConfig.from_dict(SCHED_CONFIG)
        scheduler = Scheduler(paths=[tmp], config=config, seed_routines=['kern'], frontend=Frontend.FP, xmods=[tmp])
        for trafo in transformations:
            scheduler.process(transformation=trafo)
        out = {}
        for item in scheduler.items:
            src = getattr(item, 'source', None)
            path = getattr(src, 'path', None)
            if src is not None and path is not None and os.path.basename(str(path)) not in out:
                out[os.path.basename(str(path))] = src.to_fortran()
        missing = [f for f, _ in case['sources'] if f not in out]
        if 'kern.f90' in missing:
            raise RuntimeError(f'harness: scheduler did not return kern.f90 (items: {[i.name for i in scheduler.items]})')
        return out
    finally:
        shutil.rmtree(tmp, ignore_errors=True)


def apply(case, files):
    xf, o = case['xform'], case['opts']
    if xf in ('seq', 'seqtrafo'):
        from loki.transformations.sanitise.sequence_associations import (
            do_resolve_sequence_association, SequenceAssociationTransformation)
        for sf in files.values():
            for r in sf.all_subroutines:
                if xf == 'seq':
                    do_resolve_sequence_association(r)
                else:
                    SequenceAssociationTransformation(**o).apply(r)
        return None
    from loki.transformations.transform_derived_types import (
        DerivedTypeArgumentsTransformation, TypeboundProcedureCallTransformation)
    from loki.transformations.argument_shape import ArgumentArrayShapeAnalysis, ExplicitArgumentArrayShapeTransformation
    from loki.transformations.routine_signatures import RemoveDuplicateArgs
    if xf == 'dta':
        trafos = [DerivedTypeArgumentsTransformation(all_derived_types=o['all_derived_types'])]
    elif xf == 'tbp':
        trafos = [TypeboundProcedureCallTransformation(duplicate_typebound_kernels=o['duplicate_typebound_kernels'])]
    elif xf == 'tbp+dta':
        trafos = [TypeboundProcedureCallTransformation(), DerivedTypeArgumentsTransformation(all_derived_types=o['all_derived_types'])]
    elif xf == 'shp':
        trafos = [ArgumentArrayShapeAnalysis(), ExplicitArgumentArrayShapeTransformation()]
    elif xf == 'dup':
        trafos = [RemoveDuplicateArgs(recurse_to_kernels=o['recurse_to_kernels'], rename_common=o['rename_common'])]
    else:
        raise ValueError(xf)
    return scheduler_apply(case, trafos)


def worker(case):
    r = xfast.run_case(case, apply, base=worker.base)
    r['id'] = case['id']
    return r


worker.base = None

def sigfn(results_by_id):
    """A failing simpler case explains a case that contains it (same verdict): first the case without any switch
    (same variant), then each single-switch case; the SequenceAssociationTransformation wrapper is explained by the
    plain function."""
    def sig(case, r):
        xf = case['id'].split('|', 1)[1]
        fam = case['xform']
        cands = [('base', fam, f'base|{xf}')]
        for sw in case['switches']:
            if fam == 'seqtrafo':
                cands.append((sw, 'seq', f'base+{sw}|seq()'))
            cands.append((sw, fam, f'base+{sw}|{xf}'))
        for label, family, cid in cands:
            single = results_by_id.get(cid)
            if single and single['verdict'] == r['verdict']:
                return f'{r["verdict"]} block={label} xform={family}'
        return f'{r["verdict"]} blocks={"+".join(case["switches"]) or "base"} xform={fam}'
    return sig


# wall-clock budget after which no further chunk of pair cases is started (thorough tier); the run then reports the
# completed bound (max_blocks=1) and exhaustive=False instead of overrunning on a loaded machine
CAP_S = float(os.environ.get('VERIF_CAP_S', 780))


def run(ctx):
    d = 1 if ctx.quick else 2
    allcases = make_cases(d)
    worker.base = str(ctx.scratch)
    ctx.reset_pool()
    # phase 1: base call tree and single blocks (always complete); phase 2: pairs, in seeded order, under a wall-clock cap
    first = [c for c in allcases if len(c['switches']) <= 1]
    res1 = xform.judge_cases(ctx, first, worker)
    pairs = xfast.interleave([c for c in allcases if len(c['switches']) > 1], lambda c: (c['family'], c['id'].split('|', 1)[1]))
    second, res2, complete = xfast.judge_until(ctx, pairs, worker, CAP_S) if pairs else ([], [], True)
    cases, results = first + second, res1 + res2
    if not complete:
        ctx.note(f'time cap {CAP_S}s hit: {len(second)} of {len(pairs)} pair cases judged; bound completed: max_blocks=1')
    by_id = {r['id']: r for r in results}
    xform.summarise(ctx, cases, results, sigfn(by_id))
    per_family = {}
    for c, r in zip(cases, results):
        pf = per_family.setdefault(c['family'], dict(cases=0, changed_ok=0))
        pf['cases'] += 1
        pf['changed_ok'] += int(r['verdict'] == 'ok' and bool(r.get('changed')))
    for fam, pf in per_family.items():
        ctx.require(pf['changed_ok'] >= 2, f'vacuous: family {fam} has only {pf["changed_ok"]} changed-and-equal programs')
    ctx.cov.update(
        exhaustive=complete, per_family=per_family, pairs_judged=len(second), pairs_total=len(pairs),
        bound=dict(max_blocks=d if complete else 1, blocks={f: len(s['blocks']) for f, s in FAMILIES.items()},
                   variants={f: len(s['variants']) for f, s in FAMILIES.items()}),
        rule=f'per family, all combinations of <= {d} feature blocks added to the base call tree x every transformation '
             'variant (2- and 3-level trees for the scheduler-driven ones); 3 inputs per run; non-trivial = the '
             'transformation changed the code and the program still prints the original output',
        samples=[dict(id=cases[0]['id']), dict(id=cases[-1]['id'], text=cases[-1]['sources'][-1][1])],
    )
    ctx.assumptions += ['gfortran -O0 -fcheck=bounds defines behaviour', 'only standard-conforming programs are generated',
                        'RemoveDuplicateArgs: no two calls to one routine with differing duplicate patterns (documented restriction)']


def replay(case):
    r = xfast.run_case(case, apply)
    if r['verdict'] == 'HARNESS':
        raise RuntimeError(r['detail'])
    return None if r['verdict'] in ('ok', 'unchanged-ok', 'refused') else f'{r["verdict"]}: {r["detail"]}'
