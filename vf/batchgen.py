"""vf/batchgen.py -- multi-file Fortran project generator, ground-truth dependency relation and
three-valued reference closure for the batch-scheduler properties (C21 .. C25).

Nothing in this file imports Loki at module level and nothing in the ground truth / reference
closure calls Loki: the oracle side is plain Python written from the property statements and from
docs/source/transform.rst ("The Scheduler's dependency graph", "Pruning the dependency graph").
Only `discovery_order`, `build_scheduler` and `observe_graph` touch the implementation.

PUBLIC API (everything is deterministic; all specs are JSON-able dicts/lists)
-----------------------------------------------------------------------------
Project specs
    pspec = dict(n=3, edges=[[0,1],[1,2]], layout='ownmod', imp='only', features=[['typebound',2]],
                 casing=[['p1','def']], names=0)
      n         number of procedures P0..Pn-1; P0 is the root ("driver")
      edges     call edges [i,j] with i<j (every DAG on n labelled nodes is such a set)
      layout    one of LAYOUTS (file / module placement), see `_layout`
      imp       import style for calls into another module: 'only' | 'bare' | 'renamed'
      features  list of project features, see FEATURES / `applicable_features`:
                typebound j | generic j | modvar i j | selfrec j | cycle j k | usespell 1|2 | intrinsic | external i (call of an
                undefined procedure) | inlineif i j | cycle2 j (j alone RECURSIVE, each of its >=2 callees calls it back: two
                cycles through one routine) | shadow i j (host module of i imports a same-named procedure from a decoy
                module, i itself imports j: the inner import wins) | extmod i (USE of a module outside the search path)
      casing    list of [entity, site]: that name is spelled UPPER-case at that site (C23);
                entity = 'p<i>' | 'm:<modkey>' | 't<j>' | 'b<j>' | 'g<j>' ; site = 'def' | 'use@<i>' | 'cfg' | 'seed'
      names     index into NAME_POOLS (surface spelling only; chosen from VERIF_SEED)
    build_project(pspec) -> Project | None      (None: layout/feature not applicable or invalid Fortran)
    enumerate_projects(nmax, layouts=, imps=, feature_budget=, names=) -> iterator of pspec (deduplicated)
    all_dags(n) -> list of edge lists

Project (pure data, no I/O until .write())
    .files        {relpath: text}                   .write(root) -> Path (files written below root)
    .procs        [ProcInfo(idx,name,modkey,module,file,item,calls,recursive)]
    .modules      {modkey: ModInfo(key,name,file,procs)}
    .items        {item_name: ItemInfo(kind,name,file,deps,proc)}  ground truth, item names as documented
                  (`mod#proc`, `#proc`, `mod`, `mod#type`, `mod#type%binding`, `mod#generic`)
                  deps = [Dep(target, strength 'must'|'may', how, local, external)]
    .proc_item(i) item name of procedure i          .file_of(item_name) -> relpath
    .sorted_files sorted relpaths (index space of discovery orders)
    .compile_order() / .driver_program() / .simulate() / .gfortran_check(workdir)   (for C25: every
                  procedure prints a marker and adds 10**i to n; simulate() gives the expected output)

Configurations (deviation-bounded around {seed = root})
    config_menu(project, process=False) -> [(switch, [(value, weight), ...])]
    enumerate_configs(project, d, process=False) -> iterator of cspec = [[switch, value], ...]  (total weight <= d;
                  a non-plain entry form (scoped `m#p`, module `m`, pattern `p*`, UPPER) weighs 2)
    make_config(project, cspec) -> dict(config=<dict for SchedulerConfig.from_dict>, seeds=[..], full_parse=bool)

Reference model (three-valued: must-have / don't-care / must-not-have = everything else)
    reference_closure(project, made_config) -> Closure
        .must_nodes/.may_nodes {item: kind}   .must_edges/.may_edges {(a,b)}   .ignored {item: True|False|None}
        .may_raise (construction may refuse: strict + undefined callee)  .why_not {item: reasons}
        .dontcare (a seed is named by the global disable list: nothing is demanded)
        .rolemode {item: (role, mode)}  .targets {proc item: (must_in, must_out)}  .decisions (#(item,dep) judged)
    compare_graph(project, closure, observed) -> [(failclass, detail)]      (empty: the graph conforms)
    ref_match(entry, item_name) -> bool      documented matching rule (name, scope, scope#name, fnmatch, no case)

Implementation seams
    discovery_orders(project) -> list of permutations (identity first)
    discovery_order(perm)     context manager: rebinds `set` in loki.batch.scheduler so that
                              `list(set(paths))` in Scheduler._discover yields the files in the chosen order
    build_scheduler(root, project, made_config, perm=None) -> Scheduler   (raises what Loki raises)
    observe_graph(scheduler) -> dict(nodes={name: (kind, is_ignored)}, edges={(a,b)}, dups=[..], cyclic=bool)
    quiet_loki()              logger off + REGEX-frontend wall-clock timeout off (nondeterminism owned by the harness)

Cases, shrinking, signatures
    case = dict(p=pspec, c=cspec, o=perm|None)
    case_key(case) -> canonical text (names pool removed)     case_size(case) -> sort key, smallest first
    smaller_cases(case) -> iterator of strictly smaller well-formed cases (for vf.explore.shrink)
    role_text(project, text) -> text with project identifiers replaced by role tokens (for signatures)

Self-test:  cd /verif && /venv/bin/python -m vf.batchgen [nmax]   (consistency + gfortran compile/run of every project)
"""
import builtins
import contextlib
import fnmatch
import itertools
import json
import re
from collections import OrderedDict, namedtuple
from pathlib import Path

# ----------------------------------------------------------------------------- names
NAME_POOLS = [
    dict(procs=['drv', 'ka', 'kb', 'kc'], shared='kern', stem='unit', ext='ext_aux'),
    dict(procs=['main_step', 'phys_a', 'rad_b', 'dyn_c'], shared='pack', stem='part', ext='ext_lib'),
    dict(procs=['top', 'alpha', 'beta', 'gamma'], shared='greek', stem='leaf', ext='ext_far'),
]

LAYOUTS = ['free', 'ownmod', 'shared', 'twomod', 'mixed', 'mixed2', 'allmod', 'onemod', 'bundle_mods',
           'bundle_mixed', 'bundle_free', 'onefile', 'split', 'F90', 'casedirs', 'casesame']
IMPORT_STYLES = ['only', 'bare', 'renamed']
FEATURES = ['typebound', 'generic', 'modvar', 'selfrec', 'cycle', 'usespell', 'intrinsic', 'external', 'inlineif',
            'cycle2', 'shadow', 'extmod']

ProcInfo = namedtuple('ProcInfo', 'idx name modkey module file item calls recursive')
ModInfo = namedtuple('ModInfo', 'key name file procs')
ItemInfo = namedtuple('ItemInfo', 'kind name file deps proc')
Dep = namedtuple('Dep', 'target strength how local external')

KINDS = ('Procedure', 'Module', 'TypeDef', 'ProcedureBinding', 'Interface', 'External')


def _t(x):
    """lists -> tuples, recursively (specs arrive as JSON)"""
    if isinstance(x, (list, tuple)):
        return tuple(_t(v) for v in x)
    return x


def norm_pspec(spec):
    s = dict(n=int(spec['n']), edges=sorted(_t(spec.get('edges', ()))), layout=spec.get('layout', 'free'),
             imp=spec.get('imp', 'only'), features=sorted(_t(spec.get('features', ()) or ()), key=repr),
             casing=sorted(_t(spec.get('casing', ()) or ())), names=int(spec.get('names', 0)))
    return s


def pspec_json(spec):
    s = norm_pspec(spec)
    return dict(n=s['n'], edges=[list(e) for e in s['edges']], layout=s['layout'], imp=s['imp'],
                features=[list(f) for f in s['features']], casing=[list(c) for c in s['casing']], names=s['names'])


def all_dags(n):
    """Every DAG on labelled nodes 0..n-1 whose edges go from lower to higher index."""
    pairs = [(i, j) for i in range(n) for j in range(i + 1, n)]
    out = []
    for k in range(len(pairs) + 1):
        for sub in itertools.combinations(pairs, k):
            out.append(list(sub))
    return out


# ----------------------------------------------------------------------------- layouts
def _layout(layout, n, pool):
    """-> list over procedures of (modkey | None, relpath) or None if the layout does not exist for n.
    Layouts that coincide for small n with an earlier one (up to names) return None there."""
    P, sh, stem = pool['procs'], pool['shared'], pool['stem']

    def free(i, suf='.f90'):
        return (None, f'{P[i]}{suf}')

    def own(i, path=None):
        return (f'own{i}', path or f'{P[i]}_mod.f90')

    shared = ('shared', f'{sh}_mod.f90')
    bundle = f'{sh}_units.f90'
    K = range(1, n)
    if layout == 'free':
        return [free(i) for i in range(n)]
    if layout == 'ownmod' and n >= 2:
        return [free(0)] + [own(i) for i in K]
    if layout == 'shared' and n >= 3:
        return [free(0)] + [shared for i in K]
    if layout == 'twomod' and n >= 4:
        return [free(0)] + [('A', f'{sh}_a_mod.f90') if i % 2 else ('B', f'{sh}_b_mod.f90') for i in K]
    if layout == 'mixed' and n >= 3:
        return [free(0)] + [own(i) if i % 2 else free(i) for i in K]
    if layout == 'mixed2' and n >= 3:
        return [free(0)] + [free(i) if i % 2 else own(i) for i in K]
    if layout == 'allmod':
        return [('root', f'{P[0]}_mod.f90')] + [shared if n >= 3 else own(i) for i in K]
    if layout == 'onemod' and n >= 2:
        return [shared for i in range(n)]
    if layout == 'bundle_mods' and n >= 3:
        return [free(0)] + [own(i, bundle) for i in K]
    if layout == 'bundle_mixed' and n >= 3:
        return [free(0)] + [own(1, bundle)] + [(None, bundle) for i in range(2, n)]
    if layout == 'bundle_free' and n >= 3:
        return [free(0)] + [(None, bundle) for i in K]
    if layout == 'onefile' and n >= 2:
        return [(None, bundle) for i in range(n)]
    if layout == 'split' and n >= 3:
        return [free(1) if i == 1 else (None, bundle) for i in range(n)]
    if layout == 'F90' and n >= 2:
        return [free(0)] + [free(i, '.F90') for i in K]
    if layout == 'casedirs' and n >= 3:
        return [free(0), (None, f'a/{stem}.f90'), (None, f'b/{stem.upper()}.f90')] + [free(i) for i in range(3, n)]
    if layout == 'casesame' and n >= 3:
        return [free(0), (None, f'{stem}.f90'), (None, f'{stem.upper()}.F90')] + [free(i) for i in range(3, n)]
    return None


def _modname(modkey, pool):
    P, sh = pool['procs'], pool['shared']
    if modkey.startswith('own'):
        return f'{P[int(modkey[3:])]}_mod'
    return {'shared': f'{sh}_mod', 'A': f'{sh}_a_mod', 'B': f'{sh}_b_mod', 'root': f'{P[0]}_mod'}[modkey]


# ----------------------------------------------------------------------------- project
class Project:
    """Immutable description of one generated project + its ground truth."""

    def __init__(self, spec):
        self.spec = norm_pspec(spec)
        self.n = self.spec['n']
        self.pool = NAME_POOLS[self.spec['names'] % len(NAME_POOLS)]
        self.casing = set(self.spec['casing'])
        self.features = list(self.spec['features'])
        self.valid = True
        self.why_invalid = ''
        self.files = OrderedDict()
        self.items = {}
        self.procs = []
        self.modules = OrderedDict()
        self.use_statements = 0
        self._build()

    # ---- naming
    def base(self, ent):
        P = self.pool['procs']
        k = ent[0]
        if k == 'p':
            return P[int(ent[1:])]
        if k == 'm':
            return _modname(ent[2:], self.pool)
        if k == 't':
            return f'ty_{P[int(ent[1:])]}'
        if k == 'b':
            return f'do_{P[int(ent[1:])]}'
        if k == 'g':
            return f'gen_{P[int(ent[1:])]}'
        if k == 'v':
            return f'mv_{_modname(ent[2:], self.pool)}'
        raise KeyError(ent)

    def at(self, ent, site):
        """Spelling of entity `ent` at `site` ('def', 'use@<i>', 'cfg', 'seed')."""
        name = self.base(ent)
        return name.upper() if (ent, site) in self.casing else name

    def feat(self, kind):
        return [f for f in self.features if f[0] == kind]

    # ---- construction
    def _fail(self, why):
        self.valid = False
        self.why_invalid = why

    def _build(self):
        n, pool = self.n, self.pool
        if not 1 <= n <= len(pool['procs']):
            return self._fail('n out of range')
        edges = set(self.spec['edges'])
        if any(not (0 <= i < j < n) for i, j in edges):
            return self._fail('edge out of range')
        place = _layout(self.spec['layout'], n, pool)
        if place is None:
            return self._fail('layout not applicable')
        if self.spec['imp'] not in IMPORT_STYLES:
            return self._fail('import style')
        self.place = place
        modkeys = [p[0] for p in place]
        # ---- features
        tb = {f[1] for f in self.feat('typebound')}
        gen = {f[1] for f in self.feat('generic')}
        selfrec = {f[1] for f in self.feat('selfrec')}
        cycles = {(f[1], f[2]) for f in self.feat('cycle')}
        modvars = {(f[1], f[2]) for f in self.feat('modvar')}
        externals = {f[1] for f in self.feat('external')}
        inlineif = {(f[1], f[2]) for f in self.feat('inlineif')}
        cycle2 = {f[1] for f in self.feat('cycle2')}
        shadows = {(f[1], f[2]) for f in self.feat('shadow')}
        extmods = {f[1] for f in self.feat('extmod')}
        usespell = max([f[1] for f in self.feat('usespell')] + [0])
        if len(self.features) != len(set(self.features)) or len(self.feat('usespell')) > 1:
            return self._fail('duplicate feature')
        for f in self.features:
            if f[0] not in FEATURES:
                return self._fail('unknown feature')
        for j in tb | gen:
            if not (1 <= j < n) or modkeys[j] is None:
                return self._fail('typebound/generic target must be a module procedure')
        if tb & gen:
            return self._fail('typebound and generic on the same procedure')
        rec_nodes = set(selfrec)
        for j, k in cycles:
            if not (1 <= j < k < n) or (j, k) not in edges:
                return self._fail('cycle needs an existing edge between kernels')
            rec_nodes |= {j, k}
        if any(not 1 <= j < n for j in selfrec):
            return self._fail('selfrec target')
        # cycle2: procedure j alone is RECURSIVE and every one of its (>= 2) callees calls it back
        for j in cycle2:
            if not 0 <= j < n or len([k for (a, k) in edges if a == j]) < 2 or (selfrec | {x for c in cycles for x in c}):
                return self._fail('cycle2 needs a procedure with >= 2 callees and no other recursion feature')
            rec_nodes.add(j)
        # shadow: caller i (module procedure) imports callee j by name while its host module imports a
        # same-named procedure from a decoy module; the inner import hides the host-associated one
        for i, j in shadows:
            if (i, j) not in edges or modkeys[i] is None or modkeys[j] is None or modkeys[i] == modkeys[j] \
                    or self.spec['imp'] != 'only' or j in tb | gen:
                return self._fail('shadow needs a module procedure calling a procedure of another module with ONLY-imports')
        if len(shadows) > 1 or any(not 0 <= i < n for i in extmods):
            return self._fail('shadow/extmod arguments')
        if rec_nodes & (tb | gen):
            return self._fail('recursion on a typebound/generic procedure')
        for i, j in modvars:
            if not (0 <= i < n and 0 <= j < n) or modkeys[j] is None or modkeys[i] == modkeys[j]:
                return self._fail('modvar needs a foreign module')
        if any(not 0 <= i < n for i in externals):
            return self._fail('external caller')
        if any((i, j) not in edges for i, j in inlineif):
            return self._fail('inlineif needs an existing edge')
        # ---- call lists (order = order of statements in the text)
        calls = {i: [(j, 'plain') for j in range(n) if (i, j) in edges] for i in range(n)}
        guarded = {i: [] for i in range(n)}
        for j in selfrec:
            guarded[j].append(j)
        for j, k in cycles:
            guarded[k].append(j)
        for j in cycle2:
            for (a, k) in sorted(edges):
                if a == j:
                    guarded[k].append(j)
        # ---- module dependency relation must be acyclic (otherwise not valid Fortran)
        mdeps = set()
        for i in range(n):
            for j in [c[0] for c in calls[i]] + guarded[i]:
                if modkeys[j] is not None and modkeys[i] != modkeys[j] and modkeys[i] is not None:
                    mdeps.add((modkeys[i], modkeys[j]))
        for i, j in modvars:
            if modkeys[i] is not None:
                mdeps.add((modkeys[i], modkeys[j]))
        if _has_cycle(mdeps):
            return self._fail('circular module dependency')
        # ---- modules
        for i, (mk, path) in enumerate(place):
            if mk is not None:
                if mk not in self.modules:
                    self.modules[mk] = ModInfo(mk, _modname(mk, pool), path, [])
                self.modules[mk].procs.append(i)
        item_of = [f'{self.modules[mk].name if mk else ""}#{pool["procs"][i]}' for i, (mk, _) in enumerate(place)]
        self._item_of = item_of
        for mk, m in self.modules.items():
            self.items[m.name] = ItemInfo('Module', m.name, m.file, [], None)
        # ---- procedures: text + ground truth
        imp = self.spec['imp']
        proc_text = {}
        for i in range(n):
            mk_i = modkeys[i]
            site = f'use@{i}'
            uses = OrderedDict()     # modkey -> 'BARE' | list of (local, remote)
            deps = []
            decls, body = [], []

            def need(mk, ent, _uses=uses, _site=site, _mk_i=mk_i):
                """make entity `ent` of module `mk` accessible in procedure i; returns (local spelling, how)"""
                remote = self.at(ent, _site)
                if mk == _mk_i:
                    return remote, 'samemod'
                if imp == 'bare':
                    _uses[mk] = 'BARE'
                    return remote, 'bare'
                lst = _uses.setdefault(mk, [])
                if imp == 'renamed':
                    local = f'{remote}_r'
                    if (local, remote) not in lst:
                        lst.append((local, remote))
                    return local, 'renamed'
                if (None, remote) not in lst:
                    lst.append((None, remote))
                return remote, 'only'

            def module_dep(mk, how, _deps=deps, _mk_i=mk_i):
                if mk is None or mk == _mk_i:
                    return
                # bare USE and module-variable imports make the module itself a dependency; for a
                # qualified import of procedures/types/interfaces the documentation is silent
                strength = 'must' if how in ('bare', 'modvar') else 'may'
                _deps.append(Dep(self.modules[mk].name, strength, 'module:' + how, None, False))

            def emit_call(j, cond=None, _decls=decls, _body=body, _deps=deps, _site=site):
                mk_j = modkeys[j]
                pre = f'if ({cond}) ' if cond else ''
                if j in tb:
                    tyloc, how = need(mk_j, f't{j}')
                    var = f'v{j}'
                    d = f'  type({tyloc}) :: {var}'
                    if d not in _decls:
                        _decls.append(d)
                    b = self.at(f'b{j}', _site)
                    _body.append(f'  {pre}call {var}%{b}(n)')
                    mname = self.modules[mk_j].name
                    ty, bd = self.base(f't{j}'), self.base(f'b{j}')
                    _deps.append(Dep(f'{mname}#{ty}%{bd}', 'must', 'typebound:' + how, f'{var}%{bd}', False))
                    # an explicitly imported (or same-module) type is a dependency by itself; with a bare
                    # USE the implementation depends on the module instead (code comment in create_from_ir)
                    _deps.append(Dep(f'{mname}#{ty}', 'may' if how == 'bare' else 'must', 'typeuse:' + how, None, False))
                    module_dep(mk_j, how)
                elif j in gen:
                    gloc, how = need(mk_j, f'g{j}')
                    _body.append(f'  {pre}call {gloc}(n)')
                    mname = self.modules[mk_j].name
                    _deps.append(Dep(f'{mname}#{self.base(f"g{j}")}', 'must', 'generic:' + how, gloc.lower(), False))
                    module_dep(mk_j, how)
                elif mk_j is None:
                    _body.append(f'  {pre}call {self.at(f"p{j}", _site)}(n)')
                    _deps.append(Dep(item_of[j], 'must', 'direct', self.base(f'p{j}'), False))
                else:
                    ploc, how = need(mk_j, f'p{j}')
                    _body.append(f'  {pre}call {ploc}(n)')
                    _deps.append(Dep(item_of[j], 'must', how, ploc.lower(), False))
                    module_dep(mk_j, how)

            for j, _ in calls[i]:
                emit_call(j, cond='n >= 0' if (i, j) in inlineif else None)
            if guarded[i]:
                body.append('  if (n < 0) then')
                for j in guarded[i]:
                    nb = len(body)
                    emit_call(j)
                    body[nb:] = ['  ' + ln for ln in body[nb:]]
                body.append('  end if')
            if i in externals:
                body.append(f'  if (n < 0) call {pool["ext"]}(n)')
                deps.append(Dep(f'#{pool["ext"]}', 'may', 'external', pool['ext'], True))
            for (ii, j) in sorted(modvars):
                if ii == i:
                    mk_j = modkeys[j]
                    remote = self.base(f'v:{mk_j}')
                    if imp == 'bare':
                        uses[mk_j] = 'BARE'
                        loc = remote
                    elif imp == 'renamed':
                        loc = f'{remote}_r'
                        uses.setdefault(mk_j, []).append((loc, remote))
                    else:
                        loc = remote
                        uses.setdefault(mk_j, []).append((None, remote))
                    body.append(f'  n = n + {loc}')
                    deps.append(Dep(self.modules[mk_j].name, 'must', 'module:modvar', None, False))
            if i in tb:
                mname = self.modules[mk_i].name
                deps.append(Dep(f'{mname}#{self.base(f"t{i}")}', 'must', 'typeuse:selfarg', None, False))
            extmod_use = []
            if i in extmods:
                # a module that is not in the search path: an ExternalItem standing for a module
                xm = f'{pool["ext"]}_mod'
                extmod_use.append(f'  use {xm}, only: {pool["ext"]}_var')
                body.append(f'  n = n + {pool["ext"]}_var')
                deps.append(Dep(xm, 'may', 'module:extmod', None, True))
                self.use_statements += 1
            # ---- text
            use_lines = []
            if i == 0 and self.feat('intrinsic'):
                use_lines.append('  use, intrinsic :: iso_fortran_env, only: int32')
            for mk, what in uses.items():
                mname = self.at(f'm:{mk}', site)
                head = {0: f'use {mname}', 1: f'use :: {mname}', 2: f'use, non_intrinsic :: {mname}'}[usespell]
                if what == 'BARE':
                    use_lines.append(f'  {head}')
                else:
                    syms = ', '.join(r if l is None else f'{l} => {r}' for l, r in what)
                    use_lines.append(f'  {head}, only: {syms}')
                self.use_statements += 1
            use_lines += extmod_use
            pname = self.at(f'p{i}', 'def')
            args = '(self, n)' if i in tb else '(n)'
            rec = 'recursive ' if i in rec_nodes else ''
            lines = [f'{rec}subroutine {pname}{args}'] + use_lines + ['  implicit none']
            if i in tb:
                lines.append(f'  class({self.at(f"t{i}", site)}), intent(inout) :: self')
            lines.append('  integer, intent(inout) :: n')
            lines += decls
            lines.append(f"  write(*,'(a)') '<{self.base(f'p{i}')}>'")
            lines.append(f'  n = n + {10 ** i}')
            lines += body
            lines.append(f'end subroutine {pname}')
            proc_text[i] = '\n'.join(lines) + '\n'
            # merge duplicate deps, strongest wins
            merged = OrderedDict()
            for d in deps:
                key = (d.target, d.local)
                if key not in merged or (d.strength == 'must' and merged[key].strength != 'must'):
                    merged[key] = d
            self.items[item_of[i]] = ItemInfo('Procedure', item_of[i], place[i][1], list(merged.values()), i)
            self.procs.append(ProcInfo(i, pool['procs'][i], mk_i, self.modules[mk_i].name if mk_i else None,
                                       place[i][1], item_of[i], [c[0] for c in calls[i]], i in rec_nodes))
        if usespell and not self.use_statements:
            return self._fail('usespell without USE statement')
        # ---- intermediate items
        for j in tb:
            m = self.modules[modkeys[j]]
            ty, bd = self.base(f't{j}'), self.base(f'b{j}')
            self.items[f'{m.name}#{ty}'] = ItemInfo('TypeDef', f'{m.name}#{ty}', m.file, [], None)
            self.items[f'{m.name}#{ty}%{bd}'] = ItemInfo(
                'ProcedureBinding', f'{m.name}#{ty}%{bd}', m.file,
                [Dep(item_of[j], 'must', 'binding', self.base(f'p{j}'), False)], None)
        for j in gen:
            m = self.modules[modkeys[j]]
            g = self.base(f'g{j}')
            self.items[f'{m.name}#{g}'] = ItemInfo(
                'Interface', f'{m.name}#{g}', m.file,
                [Dep(item_of[j], 'must', 'modproc', self.base(f'p{j}'), False)], None)
        # ---- module and file texts
        unit_text = {}      # (relpath) -> list of (sortkey, text)
        self.decoy_files = []
        host_import = {}
        for i, j in shadows:
            pj = pool['procs'][j]
            dmod, dfile = f'{pj}_alt_mod', f'{pj}_alt_mod.f90'
            unit_text.setdefault(dfile, []).append((0, f'module {dmod}\n  implicit none\ncontains\n  subroutine {pj}(n)\n'
                                                    f'    integer, intent(inout) :: n\n    n = n - 1000\n  end subroutine {pj}\n'
                                                    f'end module {dmod}\n'))
            self.decoy_files.append(dfile)
            self.items[dmod] = ItemInfo('Module', dmod, dfile, [], None)
            self.items[f'{dmod}#{pj}'] = ItemInfo('Procedure', f'{dmod}#{pj}', dfile, [], None)
            host_import[modkeys[i]] = f'  use {dmod}, only: {pj}'
            # the host module imports a procedure by name: module item of the decoy is don't-care (qualified import)
            self.items[self.modules[modkeys[i]].name].deps.append(Dep(dmod, 'may', 'module:only', None, False))
            self.use_statements += 1
        self.decoy_names = {pool['procs'][j] for _, j in shadows}
        for mk, m in self.modules.items():
            mname = self.at(f'm:{mk}', 'def')
            lines = [f'module {mname}'] + ([host_import[mk]] if mk in host_import else []) + \
                    ['  implicit none', f'  integer :: {self.base("v:" + mk)} = 0']
            for j in m.procs:
                if j in tb:
                    ty = self.at(f't{j}', 'def')
                    lines += [f'  type {ty}', '    integer :: x = 0', '  contains',
                              f'    procedure :: {self.at(f"b{j}", "def")} => {self.at(f"p{j}", "use@spec")}',
                              f'  end type {ty}']
                if j in gen:
                    g = self.at(f'g{j}', 'def')
                    lines += [f'  interface {g}', f'    module procedure {self.at(f"p{j}", "use@spec")}',
                              f'  end interface {g}']
            lines.append('contains')
            for j in m.procs:
                lines += ['  ' + ln if ln else ln for ln in proc_text[j].splitlines()]
            lines.append(f'end module {mname}')
            # providers first inside a shared file: higher procedure index first
            unit_text.setdefault(m.file, []).append((-min(m.procs) - 1000, '\n'.join(lines) + '\n'))
        for i, (mk, path) in enumerate(place):
            if mk is None:
                unit_text.setdefault(path, []).append((i, proc_text[i]))
        for path in sorted(unit_text):
            self.files[path] = '\n'.join(t for _, t in sorted(unit_text[path]))
        self.sorted_files = sorted(self.files)
        self._modkeys = modkeys
        self._mdeps = mdeps

    # ---- queries
    def proc_item(self, i):
        return self._item_of[i]

    def file_of(self, item_name):
        return self.items[item_name].file

    def in_module(self, i):
        return self._modkeys[i] is not None

    def dedupe_key(self):
        return json.dumps([sorted(self.files.items()), sorted(self.features, key=repr)], sort_keys=True)

    def write(self, root):
        root = Path(root)
        for rel, text in self.files.items():
            p = root / rel
            p.parent.mkdir(parents=True, exist_ok=True)
            p.write_text(text)
        return root

    # ---- execution ground truth (for C25; also validates the generator itself)
    def simulate(self):
        """Expected stdout lines of driver_program(): markers in call order, then the final n."""
        lines, total = [], [0]

        def run(i):
            lines.append(f'<{self.base(f"p{i}")}>')
            total[0] += 10 ** i
            for j in self.procs[i].calls:
                run(j)
        run(0)
        return lines + [str(total[0])]

    def driver_program(self):
        use = f'  use {self.modules[self._modkeys[0]].name}, only: {self.base("p0")}\n' if self._modkeys[0] else ''
        return (f'program main\n{use}  implicit none\n  integer :: n\n  n = 0\n  call {self.base("p0")}(n)\n'
                f"  write(*,'(i0)') n\nend program main\n")

    def stub_external(self):
        """Harness-owned definitions of what the project deliberately leaves undefined (never shown to Loki)."""
        e = self.pool['ext']
        out = ''
        if self.feat('extmod'):
            out += f'module {e}_mod\n  implicit none\n  integer :: {e}_var = 0\nend module {e}_mod\n'
        if self.feat('external'):
            out += f'subroutine {e}(n)\n  integer, intent(inout) :: n\n  n = n - 1\nend subroutine {e}\n'
        return out

    def compile_order(self):
        """Files ordered so that module providers precede their users."""
        fdeps = set()
        for a, b in self._mdeps:
            fa, fb = self.modules[a].file, self.modules[b].file
            if fa != fb:
                fdeps.add((fa, fb))
        for p in self.procs:
            it = self.items[p.item]
            for d in it.deps:
                if not d.external and d.target in self.items:
                    fb = self.items[d.target].file
                    tk = self.items[d.target].kind
                    # only module-provided entities impose a compile order
                    if fb != p.file and ('#' not in d.target or not d.target.startswith('#')):
                        fdeps.add((p.file, fb))
        order, seen = [], set()

        def visit(f, stack=()):
            if f in seen or f in stack:
                return
            for a, b in sorted(fdeps):
                if a == f:
                    visit(b, stack + (f,))
            seen.add(f)
            order.append(f)
        for f in self.sorted_files:
            visit(f)
        return order

    def gfortran_check(self, workdir):
        """Compile + run the project with a harness-owned driver; returns None if the output equals
        simulate(), else a message.  (Generator self-validation; the driver never goes through Loki.)"""
        from vf import gf
        with gf.Build(base=workdir, prefix='bg_') as b:
            names = []
            if self.stub_external():
                b.write('aa_ext_stub.f90', self.stub_external())
                names.append('aa_ext_stub.f90')
            for rel in self.decoy_files + [f for f in self.compile_order() if f not in self.decoy_files]:
                b.write(rel, self.files[rel])
                names.append(rel)
            b.write('zz_main.f90', self.driver_program())
            names.append('zz_main.f90')
            ok, err = b.fcompile(names)
            if not ok:
                return 'gfortran rejects the generated project: ' + err[-600:]
            rc, out, err = b.run(['./a.out'])
            got = [ln.strip() for ln in out.splitlines() if ln.strip()]
            if rc != 0 or got != self.simulate():
                return f'generated project prints {got}, simulate() says {self.simulate()} (rc={rc})'
        return None


def _has_cycle(edges):
    nodes = {a for e in edges for a in e}
    succ = {a: {b for x, b in edges if x == a} for a in nodes}
    state = {}

    def dfs(a):
        state[a] = 1
        for b in succ[a]:
            if state.get(b) == 1 or (b not in state and dfs(b)):
                return True
        state[a] = 2
        return False
    return any(a not in state and dfs(a) for a in sorted(nodes))


def build_project(spec):
    p = Project(spec)
    return p if p.valid else None


def applicable_features(spec):
    """Every single feature that can be added to the (feature-free) project `spec`."""
    base = build_project(dict(spec, features=[]))
    if base is None:
        return []
    n, edges = base.n, base.spec['edges']
    cands = []
    for j in range(1, n):
        cands += [('typebound', j), ('generic', j), ('selfrec', j)]
    for (j, k) in edges:
        if j >= 1:
            cands.append(('cycle', j, k))
    for i in (0, 1):
        for j in range(n):
            if i < n and i != j:
                cands.append(('modvar', i, j))
    cands += [('usespell', 1), ('usespell', 2), ('intrinsic',), ('external', 0), ('extmod', 0)]
    if n > 1:
        cands += [('external', n - 1), ('extmod', n - 1)]
    for j in range(n):
        cands.append(('cycle2', j))
    for (i, j) in edges:
        cands.append(('shadow', i, j))
    if edges:
        cands.append(('inlineif',) + tuple(edges[0]))
    out, seen = [], set()
    for f in cands:
        p = build_project(dict(spec, features=[f]))
        if p is not None:
            # modvar from different j of the same module are the same project
            k = p.dedupe_key()
            if k not in seen:
                seen.add(k)
                out.append(f)
    return out


def enumerate_projects(nmax, layouts=None, imps=None, feature_budget=1, names=0, nmin=1, with_base_imps=True):
    """Every (n <= nmax, DAG, layout, import style, <= feature_budget features) project, deduplicated on the
    generated text.  Import styles other than 'only' are produced only where some USE statement exists."""
    layouts = layouts or LAYOUTS
    imps = imps or IMPORT_STYLES
    seen = set()
    for n in range(nmin, nmax + 1):
        for edges in all_dags(n):
            for layout in layouts:
                for imp in imps:
                    spec0 = dict(n=n, edges=edges, layout=layout, imp=imp, features=[], casing=[], names=names)
                    p0 = build_project(spec0)
                    if p0 is None:
                        continue
                    feats = applicable_features(spec0) if feature_budget else []
                    fsets = [()]
                    for k in range(1, feature_budget + 1):
                        fsets += list(itertools.combinations(feats, k))
                    for fs in fsets:
                        spec = dict(spec0, features=[list(f) for f in fs])
                        p = build_project(spec)
                        if p is None:
                            continue
                        if imp != 'only' and not p.use_statements:
                            continue
                        k = p.dedupe_key()
                        if k in seen:
                            continue
                        seen.add(k)
                        yield pspec_json(spec)


# ----------------------------------------------------------------------------- configurations
# no `strict` key: the documented default (True) applies; `strict1` spells it out, `strict0` switches it off
BASE_DEFAULT = dict(role='kernel', mode='base', expand=True, enable_imports=False)
LIST_KINDS = ('disable', 'block', 'ignore')


def _entry(project, j, form, what='p'):
    """Config-entry spelling that targets procedure j (or its generic interface) in the given form."""
    name = project.base(f'p{j}')
    mod = project.procs[j].module
    up = (f'p{j}', 'cfg') in project.casing
    mup = mod is not None and (f'm:{project.procs[j].modkey}', 'cfg') in project.casing
    if up:
        name = name.upper()
    if mup:
        mod = mod.upper()
    if form == 'plain':
        return name
    if form == 'upper':
        return name.upper()
    if form == 'pattern':
        return name[:2] + '*'
    if form == 'scoped':
        return f'{mod}#{name}' if mod else None
    if form == 'module':
        return mod
    if form == 'inter':
        g = [f for f in project.feat('generic') if f[1] == j]
        return project.base(f'g{j}') if g else None
    raise KeyError(form)


FORM_WEIGHT = dict(plain=1, upper=2, pattern=2, scoped=2, module=2, inter=2)


def config_menu(project, process=False):
    """[(switch, [(value, weight)])] -- every value is one departure from the base configuration
    {default: role=kernel, expand, strict, no imports; routines: root is driver; seed = root; no full parse}."""
    n = project.n
    menu = []
    forms = lambda j: [f for f in ('plain', 'upper', 'pattern', 'scoped', 'module', 'inter')
                       if _entry(project, j, f) is not None]
    seedv = []
    for j in range(1, n):
        for f in ('plain', 'scoped', 'upper'):
            if _entry(project, j, f) is not None:
                seedv.append((('+', j, f), FORM_WEIGHT[f]))
                seedv.append((('=', j, f), FORM_WEIGHT[f]))
    for f in ('scoped', 'upper'):
        if _entry(project, 0, f) is not None:
            seedv.append((('=', 0, f), FORM_WEIGHT[f]))
    menu.append(('seed', seedv))
    for kind in LIST_KINDS:
        for level in ('default', 'r0'):
            vals = [((j, f), FORM_WEIGHT[f]) for j in range(1, n) for f in forms(j)]
            menu.append((f'{kind}@{level}', vals))
        menu.append((f'{kind}@r1', [((j, 'plain'), 1) for j in range(2, n)]))
    menu.append(('expand0', [('default', 1)] + [(i, 1) for i in range(n)]))
    menu.append(('enable_imports', [(True, 1)]))
    menu.append(('strict0', [(True, 1)]))
    menu.append(('strict1', [(True, 1)]))
    menu.append(('full_parse', [(True, 1)]))
    if process:
        menu.append(('role', [((j, 'driver'), 1) for j in range(1, n)]))
        menu.append(('mode', [((j, 'alt'), 1) for j in range(0, n)] + [(('default', 'alt'), 1)]))
    return [(s, v) for s, v in menu if v]


def _cspec_ok(project, cspec):
    sw = {s for s, _ in cspec}
    # the documentation does not say how a default-level and a routine-level list of the same kind
    # combine (replace or merge): such configurations are outside the demanded space
    if 'strict0' in sw and 'strict1' in sw:
        return False
    for kind in ('block', 'ignore'):
        if f'{kind}@default' in sw and (f'{kind}@r0' in sw or f'{kind}@r1' in sw):
            return False
    return True


def enumerate_configs(project, d, process=False):
    """All configurations within total deviation weight <= d of the base, fewest switches first."""
    menu = config_menu(project, process)
    yield []
    for k in range(1, d + 1):
        for combo in itertools.combinations(range(len(menu)), k):
            pools = [menu[c][1] for c in combo]
            for vals in itertools.product(*pools):
                if sum(w for _, w in vals) > d:
                    continue
                cspec = [[menu[c][0], _jl(v)] for c, (v, _) in zip(combo, vals)]
                if _cspec_ok(project, cspec):
                    yield cspec


def _jl(v):
    return [_jl(x) for x in v] if isinstance(v, (list, tuple)) else v


def make_config(project, cspec):
    """cspec -> dict(config=<for SchedulerConfig.from_dict>, seeds=[...], full_parse=bool)."""
    default = dict(BASE_DEFAULT)
    root = project.at('p0', 'cfg')
    routines = OrderedDict()
    routines[root] = dict(role='driver')
    seeds = [project.at('p0', 'seed')]
    full_parse = False

    def rkey(i):
        return project.at(f'p{i}', 'cfg')

    for sw, val in cspec:
        val = _t(val)
        if sw == 'seed':
            op, j, form = val
            name = _entry(project, j, form)
            if (f'p{j}', 'seed') in project.casing:
                name = name.upper()
            if op == '+':
                seeds.append(name)
            else:
                seeds = [name]
        elif '@' in sw:
            kind, level = sw.split('@')
            j, form = val
            e = _entry(project, j, form)
            if level == 'default':
                default[kind] = list(default.get(kind, [])) + [e]
            else:
                r = routines.setdefault(rkey(int(level[1:])), {})
                r[kind] = list(r.get(kind, [])) + [e]
        elif sw == 'expand0':
            if val == 'default':
                default['expand'] = False
            else:
                routines.setdefault(rkey(val), {})['expand'] = False
        elif sw == 'enable_imports':
            default['enable_imports'] = True
        elif sw == 'strict0':
            default['strict'] = False
        elif sw == 'strict1':
            default['strict'] = True
        elif sw == 'full_parse':
            full_parse = True
        elif sw == 'role':
            routines.setdefault(rkey(val[0]), {})['role'] = val[1]
        elif sw == 'mode':
            if val[0] == 'default':
                default['mode'] = val[1]
            else:
                routines.setdefault(rkey(val[0]), {})['mode'] = val[1]
        else:
            raise KeyError(sw)
    return dict(config=dict(default=default, routines={k: dict(v) for k, v in routines.items()}),
                seeds=seeds, full_parse=full_parse)


# ----------------------------------------------------------------------------- reference model
def name_parts(item_name):
    full = item_name.lower()
    if '#' in full:
        scope, _, local = full.partition('#')
    else:
        scope, local = '', full
    return full, scope, local


def ref_match(entry, item_name):
    """Documented rule ("Pruning the dependency graph"): an entry matches an item `scope#name` if it equals
    -- as an fnmatch pattern, letter case ignored -- the name, the scope, or `scope#name`; entries are
    effective for entire scopes (a module entry covers what the module contains; a type covers its bindings)."""
    e = entry.lower()
    full, scope, local = name_parts(item_name)
    cands = {full, local}
    if scope:
        cands.add(scope)
    if '%' in local:
        ty = local.split('%')[0]
        cands |= {ty, f'{scope}#{ty}'}
    return any(fnmatch.fnmatchcase(c, e) for c in cands)


class RefConfig:
    """The harness's own reading of a made config (no Loki code)."""

    def __init__(self, made):
        cfg = made['config']
        self.default = dict(cfg.get('default', {}))
        self.routines = {k.lower(): dict(v) for k, v in cfg.get('routines', {}).items()}
        self.seeds = [s.lower() for s in made['seeds']]
        self.full_parse = made['full_parse']
        self.strict = self.default.get('strict', True)

    def routine(self, item_name):
        full, scope, local = name_parts(item_name)
        out = {}
        for key in (local, full):
            if key in self.routines:
                out.update(self.routines[key])
        return out

    def get(self, item_name, key, fallback=None):
        r = self.routine(item_name)
        if key in r:
            return r[key]
        return self.default.get(key, fallback)

    def lists(self, item_name):
        """(disable, block, ignore) effective for the dependencies of `item_name`: the default-level disable
        list is global; a routine-level list applies to the dependencies of that routine."""
        r = self.routine(item_name)
        dis = list(self.default.get('disable', [])) + list(r.get('disable', []))
        blk = list(r['block']) if 'block' in r else list(self.default.get('block', []))
        ign = list(r['ignore']) if 'ignore' in r else list(self.default.get('ignore', []))
        return dis, blk, ign


class Closure:
    pass


def resolve_seed(project, seed):
    """seed spelling -> item name (seeds may be plain procedure names or `module#procedure`)."""
    s = seed.lower()
    for p in project.procs:
        full, scope, local = name_parts(p.item)
        if s == full or s == local or (s.startswith('#') and s[1:] == local and not scope):
            return p.item
    return None


def reference_closure(project, made):
    """Three-valued closure of the seeds over the ground-truth dependency relation under the documented
    pruning rules.  Everything that is neither must-have nor don't-care is must-not-have."""
    rc = RefConfig(made)
    c = Closure()
    rank = {'must': 2, 'may': 1, None: 0}
    status = {}                 # item -> 'must' | 'may'
    edge = {}                   # (a,b) -> 'must' | 'may'
    why_not = {}                # item -> kinds of list that pruned it on some path
    ign = {}                    # item -> set of possible is_ignored values
    how_in, edge_how = {}, {}
    c.may_raise = False
    c.decisions = 0
    # An intermediate item (binding, interface) is expanded with its own (default-level) lists.  Whether a
    # *routine-level* entry of a caller that names the final procedure reaches through the indirection is not
    # documented: such final targets are don't-care (pruning entries) / their flag is don't-care (ignore).
    weak_prune, weak_ign = set(), set()
    for a, ainfo in project.items.items():
        r = rc.routine(a)
        for d in ainfo.deps:
            binfo = project.items.get(d.target)
            if binfo is None or binfo.kind not in ('ProcedureBinding', 'Interface'):
                continue
            for dd in binfo.deps:
                if any(ref_match(e, dd.target) for e in list(r.get('disable', [])) + list(r.get('block', []))):
                    weak_prune.add((d.target, dd.target))
                if any(ref_match(e, dd.target) for e in r.get('ignore', [])):
                    weak_ign.add((d.target, dd.target))
    seeds = []
    for s in rc.seeds:
        it = resolve_seed(project, s)
        if it is not None and it not in seeds:
            seeds.append(it)
    # a seed that is itself named by the global disable list: the documentation does not say who wins
    c.dontcare = any(ref_match(e, it) for it in seeds for e in rc.default.get('disable', []))
    # a plain seed name that two modules define (feature `shadow`): which one is meant is not documented
    if any('#' not in sd and sd in getattr(project, 'decoy_names', ()) for sd in rc.seeds):
        c.dontcare = True
    for it in seeds:
        status[it] = 'must'
        ign.setdefault(it, set()).add(False)
        how_in.setdefault(it, set()).add('seed')
    changed, first = True, True
    while changed:
        changed = False
        for x in sorted(status, key=lambda k: (-rank[status[k]], k)):
            info = project.items.get(x)
            if info is None or not rc.get(x, 'expand', True):
                continue
            dis, blk, ign_l = rc.lists(x)
            for d in info.deps:
                if first:
                    c.decisions += 1
                t = d.target
                if t == x:
                    continue            # a procedure is never its own dependency edge
                hit = [k for k, lst in (('disable', dis), ('block', blk)) for e in lst if ref_match(e, t)]
                if hit:
                    why_not.setdefault(t, set()).update(hit)
                    continue
                if d.external:
                    if rc.strict and d.how != 'module:extmod':
                        c.may_raise = True      # an undefined *procedure* may be refused under strict
                    st = 'may'
                elif (x, t) in weak_prune:
                    st = 'may'
                else:
                    st = 'must' if (status[x] == 'must' and d.strength == 'must') else 'may'
                if rank[st] > rank[edge.get((x, t))]:
                    edge[(x, t)] = st
                    changed = True
                edge_how.setdefault((x, t), set()).add(d.how)
                if rank[st] > rank[status.get(t)]:
                    status[t] = st
                    changed = True
                how_in.setdefault(t, set()).add(d.how)
                # ignore flag: an entry of the parent's ignore list flags the dependency; whether the
                # dependencies of an ignored item inherit the flag is not documented (don't-care)
                if (x, t) in weak_ign:
                    contrib = {True, False}
                elif any(ref_match(e, t) for e in ign_l):
                    contrib = {True}
                else:
                    contrib = {False} if ign.get(x, {False}) == {False} else {True, False}
                cur = ign.setdefault(t, set())
                if not contrib <= cur:
                    cur.update(contrib)
                    changed = True
        first = False
    # recursion: edges inside a strongly connected component may be removed to break the cycle
    scc_edges = _scc_edges(set(edge))
    c.must_nodes = {k: _kind(project, k) for k, v in status.items() if v == 'must'}
    c.may_nodes = {k: _kind(project, k) for k, v in status.items() if v == 'may'}
    c.must_edges = {e for e, v in edge.items() if v == 'must' and e not in scc_edges}
    c.may_edges = set(edge) - c.must_edges
    c.ignored = {}
    for k in status:
        v = ign.get(k, {False})
        c.ignored[k] = next(iter(v)) if len(v) == 1 else None
    c.why_not = {k: sorted(v) for k, v in why_not.items()}
    c.how_in = {k: sorted(v) for k, v in how_in.items()}
    c.edge_how = {k: sorted(v) for k, v in edge_how.items()}
    c.seeds = seeds
    c.rolemode = {k: (rc.get(k, 'role'), rc.get(k, 'mode')) for k in status}
    # targets of a procedure: call-site names of callees that are kept vs pruned
    c.targets = {}
    for k in status:
        info = project.items.get(k)
        if info is None or info.kind != 'Procedure':
            continue
        dis, blk, _ = rc.lists(k)
        tin, tout = set(), set()
        for d in info.deps:
            if d.local is None or d.target == k or d.external:
                continue
            pruned = any(ref_match(e, d.target) for e in dis + blk)
            (tout if pruned else tin).add(d.local)
        c.targets[k] = (tin - tout, tout - tin)
    c.cfg = rc
    return c


def _scc_edges(edges):
    import networkx as nx
    g = nx.DiGraph(list(edges))
    out = set()
    for comp in nx.strongly_connected_components(g):
        if len(comp) > 1:
            out |= {(a, b) for a, b in edges if a in comp and b in comp}
    return out


def _kind(project, item_name):
    info = project.items.get(item_name)
    return info.kind if info else 'External'


def compare_graph(project, closure, obs):
    """-> list of (failclass, detail); failclass is free of project identifiers."""
    out = []
    c = closure
    if obs.get('dups'):
        out.append(('duplicate-item', f'items that differ only in letter case: {obs["dups"]}'))
    nodes = obs['nodes']
    for k, kind in sorted(c.must_nodes.items()):
        if k not in nodes:
            out.append((f'missing-item kind={kind} via={",".join(c.how_in.get(k, []))}',
                        f'{k} ({kind}) must be in the graph (reached via {c.how_in.get(k)}), graph has {sorted(nodes)}'))
    for k, (kind, flag) in sorted(nodes.items()):
        exp = c.must_nodes.get(k) or c.may_nodes.get(k)
        if exp is None:
            if k in project.items:
                why = 'pruned-by=' + ','.join(c.why_not[k]) if k in c.why_not else 'not-reachable'
            else:
                why = 'no-such-definition'
            out.append((f'unexpected-item kind={kind} {why}',
                        f'{k} ({kind}) must not be in the graph ({why}); reference must={sorted(c.must_nodes)}'))
            continue
        if kind != exp and not (exp == 'External'):
            out.append((f'wrong-kind expected={exp} got={kind}', f'{k}: expected a {exp} item, graph has {kind}'))
        want = c.ignored.get(k)
        if want is not None and bool(flag) != want and kind != 'External':
            out.append((f'ignore-flag kind={kind} expected={want} got={bool(flag)}',
                        f'{k}: is_ignored={flag}, the configuration says {want}'))
    edges = obs['edges']
    for (a, b) in sorted(c.must_edges):
        if a in nodes and b in nodes and (a, b) not in edges:
            out.append((f'missing-edge {c.must_nodes.get(a)}->{c.must_nodes.get(b)} via={",".join(c.edge_how.get((a, b), []))}',
                        f'dependency {a} -> {b} is not an edge of the graph'))
    known = set(c.must_nodes) | set(c.may_nodes)
    for (a, b) in sorted(edges):
        if a in known and b in known and (a, b) not in c.must_edges and (a, b) not in c.may_edges:
            out.append((f'unexpected-edge {nodes[a][0]}->{nodes[b][0]}',
                        f'edge {a} -> {b} is not a dependency (or is pruned) in the reference'))
    if obs.get('cyclic'):
        out.append(('cyclic-graph', 'the scheduler graph contains a cycle'))
    out.sort(key=lambda fd: (_FAIL_PRIORITY.index(next(p for p in _FAIL_PRIORITY if fd[0].startswith(p))),
                             0 if ('pruned-by' in fd[0] or 'via=seed' in fd[0]) else 1))
    return out


# root causes first: what is reported for a case is its first failure in this order
_FAIL_PRIORITY = ['duplicate-item', 'wrong-kind', 'unexpected-item kind=External', 'missing-item', 'unexpected-item kind=',
                  'missing-edge', 'unexpected-edge', 'ignore-flag', 'cyclic-graph']


# ----------------------------------------------------------------------------- implementation seams
def quiet_loki():
    """Silence Loki's logger and switch off the wall-clock timeout of the REGEX frontend (default 30 s, a SIGALRM):
    on a loaded machine it makes a parse fail nondeterministically, which is not a property of the code under test."""
    import logging
    import loki.logging as ll
    from loki import config
    ll.logger.setLevel(logging.CRITICAL)
    logging.getLogger('Loki').setLevel(logging.CRITICAL)
    config['regex-frontend-timeout'] = 0


def discovery_orders(project):
    k = len(project.sorted_files)
    return [list(p) for p in itertools.permutations(range(k))]


@contextlib.contextmanager
def discovery_order(perm):
    """`Scheduler._discover` does `list(set(paths))`: make the resulting order an explicit choice.
    perm indexes the lexicographically sorted list of discovered files; None = sorted order."""
    import loki.batch.scheduler as S

    def fake_set(*args):
        if not args:
            return builtins.set()
        items = list(args[0])
        if not items or not all(isinstance(p, Path) for p in items):
            return builtins.set(items)
        uniq = sorted(builtins.set(items), key=str)
        if perm is None:
            return uniq
        if len(perm) != len(uniq):
            raise RuntimeError(f'discovery order {perm} does not fit {len(uniq)} discovered files')
        return [uniq[k] for k in perm]
    S.set = fake_set
    try:
        yield
    finally:
        try:
            del S.set
        except AttributeError:
            pass


def build_scheduler(root, project, made, perm=None, **kw):
    from loki.batch import Scheduler
    with discovery_order(perm):
        return Scheduler(paths=[Path(root)], config=json.loads(json.dumps(made['config'])),
                         seed_routines=list(made['seeds']), full_parse=made['full_parse'], **kw)


def observe_graph(scheduler):
    import networkx as nx
    nodes, dups = {}, []
    for it in scheduler.items:
        k = it.name.lower()
        if k in nodes:
            dups.append(it.name)
        nodes[k] = (type(it).__name__[:-4], bool(it.is_ignored))
    edges = {(a.name.lower(), b.name.lower()) for a, b in scheduler.dependencies}
    cyclic = not nx.is_directed_acyclic_graph(scheduler.sgraph._graph)   # pylint: disable=protected-access
    return dict(nodes=nodes, edges=edges, dups=dups, cyclic=cyclic)


# ----------------------------------------------------------------------------- cases, shrinking
def norm_case(case):
    return dict(p=pspec_json(case['p']), c=sorted([[s, _jl(v)] for s, v in case.get('c', [])], key=repr),
                o=(list(case['o']) if case.get('o') is not None else None))


def case_key(case):
    cn = norm_case(case)
    cn['p'] = dict(cn['p'])
    cn['p'].pop('names')
    if cn['o'] is not None and cn['o'] == sorted(cn['o']):
        cn['o'] = None
    return json.dumps(cn, sort_keys=True, separators=(',', ':'))


def case_size(case):
    cn = norm_case(case)
    p = cn['p']
    w = 0
    for s, v in cn['c']:
        w += 1
        if isinstance(v, list) and v and v[-1] in FORM_WEIGHT:
            w += FORM_WEIGHT[v[-1]] - 1
    o = cn['o']
    return (len(p['features']) + len(p['casing']) + w, p['n'], len(p['edges']),
            0 if p['layout'] == 'free' else 1 + LAYOUTS.index(p['layout']), IMPORT_STYLES.index(p['imp']),
            0 if (o is None or o == sorted(o)) else 1, case_key(case))


def _drop_proc(pspec, cspec):
    """Remove the last procedure if nothing refers to it beyond edges."""
    p = pspec_json(pspec)
    last = p['n'] - 1
    if last < 1:
        return None
    for f in p['features']:
        if last in f[1:]:
            return None
    for cse in p['casing']:
        if re.fullmatch(rf'[ptbg]{last}', cse[0]) or cse[1] == f'use@{last}':
            return None
    for s, v in cspec:
        flat = v if isinstance(v, list) else [v]
        if s in ('enable_imports', 'strict0', 'strict1', 'full_parse'):
            continue
        if last in [x for x in flat if isinstance(x, int) and not isinstance(x, bool)]:
            return None
    p['n'] = last
    p['edges'] = [e for e in p['edges'] if last not in e]
    return p


def smaller_cases(case):
    """Strictly smaller well-formed neighbours of a case (greedy shrinking, deterministic order)."""
    cn = norm_case(case)
    p, c, o = cn['p'], cn['c'], cn['o']

    def ok(pp, cc, oo):
        prj = build_project(pp)
        if prj is None:
            return None
        if oo is not None and len(oo) != len(prj.sorted_files):
            oo = None
        # the configuration must still be expressible on the smaller project
        try:
            menu = {s: {json.dumps(_jl(v)) for v, _ in vals} for s, vals in config_menu(prj, process=True)}
            for s, v in cc:
                if json.dumps(_jl(v)) not in menu.get(s, ()):
                    return None
        except (KeyError, IndexError):
            return None
        return dict(p=pspec_json(pp), c=cc, o=oo)

    if o is not None and o != sorted(o):
        yield dict(p=p, c=c, o=None)
    for k in range(len(c)):
        r = ok(p, c[:k] + c[k + 1:], o)
        if r:
            yield r
    for k, (s, v) in enumerate(c):
        if isinstance(v, list) and v and v[-1] in FORM_WEIGHT and v[-1] != 'plain':
            r = ok(p, c[:k] + [[s, v[:-1] + ['plain']]] + c[k + 1:], o)
            if r:
                yield r
    for k in range(len(p['features'])):
        r = ok(dict(p, features=p['features'][:k] + p['features'][k + 1:]), c, o)
        if r:
            yield r
    for k in range(len(p['casing'])):
        r = ok(dict(p, casing=p['casing'][:k] + p['casing'][k + 1:]), c, o)
        if r:
            yield r
    q = _drop_proc(p, c)
    if q is not None:
        r = ok(q, c, o)
        if r:
            yield r
    for k in range(len(p['edges'])):
        r = ok(dict(p, edges=p['edges'][:k] + p['edges'][k + 1:]), c, o)
        if r:
            yield r
    if p['imp'] != 'only':
        r = ok(dict(p, imp='only'), c, o)
        if r:
            yield r
    if p['layout'] != 'free':
        for lay in ('free', 'ownmod', 'shared'):
            if LAYOUTS.index(lay) < LAYOUTS.index(p['layout']):
                r = ok(dict(p, layout=lay), c, o)
                if r:
                    yield r


def role_text(project, text):
    """Replace project identifiers (and scratch paths) by role tokens so that a message can be part of a signature."""
    text = re.sub(r'/[\w/.\-]*/', '<dir>/', str(text))
    repl = []
    for i in range(project.n):
        repl += [(project.base(f't{i}'), 'TYPE'), (project.base(f'b{i}'), 'BINDING'), (project.base(f'g{i}'), 'GENERIC')]
    for mk, m in project.modules.items():
        repl += [(project.base('v:' + mk), 'MODVAR'), (m.name, 'MODULE')]
    for i in range(project.n):
        repl.append((project.base(f'p{i}'), 'ROOT' if i == 0 else 'PROC'))
    repl.append((project.pool['ext'], 'EXTERNAL'))
    repl.append((project.pool['stem'], 'STEM'))
    repl.append((project.pool['shared'], 'SHARED'))
    for name, tok in sorted(repl, key=lambda r: -len(r[0])):
        text = re.sub(rf'(?i)(?<![A-Za-z0-9]){re.escape(name)}(?:_r)?(?![A-Za-z0-9])', tok, text)
    return text


# ----------------------------------------------------------------------------- generator self-test
def _selftest_one(spec):
    p = build_project(spec)
    # ground-truth consistency: every dependency target is an item of the project or an undefined external
    for name, info in p.items.items():
        for d in info.deps:
            if not d.external and d.target not in p.items:
                return f'{spec}: dependency {name} -> {d.target} has no item'
        if info.file not in p.files:
            return f'{spec}: item {name} lives in unknown file {info.file}'
    return p.gfortran_check(None)


def selftest(nmax=3, feature_budget=1, nproc=8):
    """`/venv/bin/python -m vf.batchgen [nmax]`: every project of the enumeration is internally consistent, is accepted
    by gfortran and prints what simulate() predicts.  Returns the list of (spec, message) that fail."""
    import multiprocessing as mp
    specs = list(enumerate_projects(nmax, feature_budget=feature_budget))
    with mp.get_context('fork').Pool(nproc) as pool:
        res = pool.map(_selftest_one, specs, chunksize=4)
    bad = [(s, r) for s, r in zip(specs, res) if r]
    print(f'batchgen selftest: {len(specs)} projects (n<={nmax}, <= {feature_budget} feature), {len(bad)} rejected')
    for s, r in bad[:10]:
        print('  ', s, r)
    return bad


if __name__ == '__main__':
    import sys
    sys.exit(1 if selftest(int(sys.argv[1]) if len(sys.argv) > 1 else 3) else 0)
