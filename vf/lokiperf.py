"""Harness-side accelerator: every `loki.ir.Visitor()` construction calls
`inspect.getmembers` and `inspect.getfullargspec` on each of its ~60 visit methods (0.3 ms per visitor, and fgen /
FindNodes / Transformer build one per call).  The answer is a pure function of the underlying
*function object*, and the method names are a function of the class, so memoising both changes no behaviour of the code under
test; it roughly halves the cost of IR-heavy enumerations.  Call `speedup()` once per process
(before forking workers).  Nothing in /repo is modified; only the name `inspect` as seen from
`loki.ir.visitor` is rebound to a thin proxy.
"""
import inspect as _inspect

_CACHE = {}
_NAMES = {}


class _InspectProxy:
    def __getattr__(self, name):
        return getattr(_inspect, name)

    @staticmethod
    def getfullargspec(meth):
        f = getattr(meth, '__func__', meth)
        try:
            return _CACHE[f]
        except KeyError:
            r = _CACHE[f] = _inspect.getfullargspec(meth)
            return r
        except TypeError:
            return _inspect.getfullargspec(meth)


    @staticmethod
    def getmembers(obj, predicate=None):
        # Visitor.__init__ lists the bound methods of `self`; the set of names is a function of the class
        if predicate is not _inspect.ismethod or isinstance(obj, type):
            return _inspect.getmembers(obj, predicate)
        names = _NAMES.get(type(obj))
        if names is None:
            names = _NAMES[type(obj)] = [n for n, _ in _inspect.getmembers(obj, predicate)]
        return [(n, getattr(obj, n)) for n in names]


def speedup():
    import loki.ir.visitor as v
    if not isinstance(v.inspect, _InspectProxy):
        v.inspect = _InspectProxy()


def silence():
    """Loki logs warnings through its own logger; silence everything below CRITICAL."""
    import logging
    import loki.logging as ll
    ll.logger.setLevel(logging.CRITICAL)
    logging.getLogger('loki').setLevel(logging.CRITICAL)


_AST = {}


def cache_fparser_ast():
    """Memoise the fparser parse tree per source text for `Sourcefile.from_fparser` (the tree is a
    deterministic function of the text and Loki's IR construction only reads it).  Checks that use
    this must validate it once per run with `ast_cache_is_transparent`."""
    import loki.sourcefile as sfmod
    import loki.frontend.fparser as fp
    if getattr(sfmod.parse_fparser_source, '_vf_cached', False):
        return
    real = fp.parse_fparser_source

    def cached(source):
        ast = _AST.get(source)
        if ast is None:
            if len(_AST) > 400:
                _AST.clear()
            ast = _AST[source] = real(source)
        return ast
    cached._vf_cached = True     # pylint: disable=protected-access
    cached._vf_real = real       # pylint: disable=protected-access
    sfmod.parse_fparser_source = cached


def uncache_fparser_ast():
    import loki.sourcefile as sfmod
    real = getattr(sfmod.parse_fparser_source, '_vf_real', None)
    if real is not None:
        sfmod.parse_fparser_source = real
    _AST.clear()
