"""C02  Read-write of generated Fortran is a fixpoint.

ENUM.  Space: the C01 MF kernel stream plus every *.f90/*.F90 shipped under the repository that
the FP frontend accepts (finite, enumerated completely; rejected files are counted and listed).
Oracle: t1 = fgen(parse(src)); IR1 = parse(t1); t2 = fgen(IR1):  t1 == t2  and
canon(IR1) == canon(IR0) where IR0 is the IR t1 was written from.  The canonicaliser is the
harness's own (vf/ircanon.py: class names + fields, expression trees by pymbolic structure and
class) because Loki's == on expressions is string based and would hide parenthesis drift.
"""
import logging
import os
from pathlib import Path

from vf import mf, mfgen
from vf.ircanon import canon_ir, first_diff

PROPERTY = 'C02'
LEVEL = 'exploration'
META = dict(
    engine='enum',
    technique='bounded-exhaustive program enumeration + complete sweep of repository sources; text fixpoint and structural IR comparison',
    level_text='every MF kernel up to the length/nesting bound and every repository Fortran source FP accepts: '
               'fgen(parse(fgen(parse(src)))) == fgen(parse(src)) byte for byte and the re-read IR is structurally '
               'identical (harness canonicaliser) to the IR it was written from',
    level_note='structural identity is judged by the harness canonicaliser (class + fields + expression structure), not by Loki ==',
)
BATCH = 40


def _quiet():
    logging.disable(logging.CRITICAL)


def parse(text):
    from loki import Sourcefile, Frontend
    return Sourcefile.from_source(text, frontend=Frontend.FP)


def judge_text(text, per_routine=True):
    """-> list of (unit_name, kind, detail); empty if fixpoint holds."""
    sf0 = parse(text)
    t1 = sf0.to_fortran()
    sf1 = parse(t1)
    t2 = sf1.to_fortran()
    out = []
    if not per_routine:
        if t1 != t2:
            a, b = t1.splitlines(), t2.splitlines()
            if [x for x in a if x.strip()] == [x for x in b if x.strip()]:
                kind = 'text-drift blank-lines-only ' + ('growing' if len(b) > len(a) else 'shrinking')
            else:
                kind = 'text-drift content'
            n = next((i for i, (x, y) in enumerate(zip(a, b)) if x != y), min(len(a), len(b)))
            out.append(('<file>', kind, f'line {n + 1}: {a[n] if n < len(a) else "<eof>"!r} -> '
                                        f'{b[n] if n < len(b) else "<eof>"!r} ({len(a)} -> {len(b)} lines)'))
        c0, c1 = canon_ir(sf0), canon_ir(sf1)
        if c0 != c1:
            d = first_diff(c0, c1) or 'differs'
            out.append(('<file>', 'ir-differs at ' + _path_class(d), d))
        return out
    r0 = {r.name.lower(): r for r in sf0.all_subroutines}
    r1 = {r.name.lower(): r for r in sf1.all_subroutines}
    for name, a in r0.items():
        b = r1.get(name)
        if b is None:
            out.append((name, 'unit-lost', 'routine missing after re-read'))
            continue
        ta, tb = a.to_fortran(), b.to_fortran()
        if ta != tb:
            la, lb = ta.splitlines(), tb.splitlines()
            n = next((i for i, (x, y) in enumerate(zip(la, lb)) if x != y), min(len(la), len(lb)))
            out.append((name, 'text-drift', f'{la[n] if n < len(la) else "<eof>"!r} -> {lb[n] if n < len(lb) else "<eof>"!r}'))
        ca, cb = canon_ir(a), canon_ir(b)
        if ca != cb:
            out.append((name, 'ir-differs', first_diff(ca, cb) or 'differs'))
    return out


def _path_class(d):
    import re
    path = d.split(':', 1)[0]
    segs = [re.sub(r'\[\d+\]', '', x) for x in path.split('/') if re.sub(r'\[\d+\]', '', x)]
    tail = '/'.join(segs[-4:])
    return tail + (' (length)' if ': length ' in d else '')


def judge_batch(batch):
    _quiet()
    text = mf.module_text('kmod', [(k, body) for k, (name, body) in batch])[0]
    try:
        res = judge_text(text)
    except Exception as ex:  # pylint: disable=broad-except
        if len(batch) == 1:
            return [(batch[0][0], 'loki-exception', f'{type(ex).__name__}: {str(ex)[:300]}')]
        mid = len(batch) // 2
        return judge_batch(batch[:mid]) + judge_batch(batch[mid:])
    names = {k for k, _ in batch}
    return [(u, kind, d) for u, kind, d in res if u in names]


def judge_file(path):
    _quiet()
    try:
        text = Path(path).read_text(errors='replace')
    except OSError as ex:
        return path, 'unreadable', str(ex)
    try:
        parse(text)
    except BaseException as ex:  # pylint: disable=broad-except
        return path, 'rejected', f'{type(ex).__name__}: {str(ex)[:120]}'
    try:
        res = judge_text(text, per_routine=False)
    except BaseException as ex:  # pylint: disable=broad-except
        return path, 'second-pass-exception', f'{type(ex).__name__}: {str(ex)[:300]}'
    return path, 'judged', res


def repo_sources():
    repo = os.environ.get('VERIF_REPO', '/repo')
    out = []
    for root, dirs, files in os.walk(repo):
        dirs[:] = [d for d in dirs if d not in ('.git', 'build', '__pycache__', 'loki.egg-info')]
        for f in files:
            if f.lower().endswith(('.f90',)):
                out.append(os.path.join(root, f))
    return sorted(out)


def run(ctx):
    L, nest = (1, 2) if ctx.quick else (2, 2)
    kernels = [(f'k{n:05d}', (name, body)) for n, (name, body, _) in enumerate(mfgen.valid_stream(L, nest))]
    from vf.explore import seeded_order
    order = seeded_order(kernels, ctx.seed)
    batches = [order[s:s + BATCH] for s in range(0, len(order), BATCH)]
    results = ctx.pmap(judge_batch, batches, chunksize=1)
    byk = dict(kernels)
    single_fail = {}
    flat = [r for res in results for r in res]
    for k, kind, d in flat:
        name = byk[k][0]
        if '+' not in name:
            single_fail[name.split('[')[0]] = kind
    for k, kind, d in flat:
        name, body = byk[k]
        parts = [p.split('[')[0] for p in name.split('+')]
        culprit = next((p for p in parts if single_fail.get(p) == kind), None)
        ctx.violation(f'{kind} form={culprit}' if culprit else f'{kind} forms={name}',
                      dict(kind='kernel', name=name, body=body), d)
    files = repo_sources()
    fres = ctx.pmap(judge_file, files, chunksize=1)
    rejected = [(p, d) for p, st, d in fres if st in ('rejected', 'unreadable')]
    judged = 0
    repo = os.environ.get('VERIF_REPO', '/repo')
    for p, st, d in fres:
        rel = os.path.relpath(p, repo)
        if st == 'second-pass-exception':
            ctx.violation(f'second-pass-exception file={rel}', dict(kind='file', path=rel), d)
        elif st == 'judged':
            judged += 1
            for unit, kind, det in d:
                sig = kind if kind.startswith(('text-drift blank', 'ir-differs at')) else f'{kind} file={rel}'
                ctx.violation(sig, dict(kind='file', path=rel), det)
    ctx.require(judged >= 20, f'only {judged} repository sources accepted by FP')
    ctx.cov.update(
        evaluations=len(kernels) + judged, distinct_nontrivial=len(kernels) + judged, exhaustive=True,
        programs=len(kernels), repo_files_found=len(files), repo_files_judged=judged,
        repo_files_rejected=len(rejected),
        rejected_sample=[f'{os.path.relpath(p, repo)}: {d}' for p, d in rejected[:12]],
        rule=f'C01 kernel stream (L<={L}, nesting<={nest}) + every *.f90/*.F90 under the repository that FP parses without '
             'preprocessing; every case is distinct (different text)',
        samples=[dict(kernel=kernels[0][1][0]), dict(file=os.path.relpath(files[0], repo))],
        bound=dict(L=L, nest=nest),
    )
    ctx.assumptions += ['files FP rejects (needing preprocessing/includes) are outside the property ("that the frontend accepts")']


def replay(case):
    _quiet()
    if case.get('kind') == 'file':
        p, st, d = judge_file(os.path.join(os.environ.get('VERIF_REPO', '/repo'), case['path']))
        if st == 'judged':
            return '; '.join(f'{k}: {x}' for _, k, x in d) or None
        return f'{st}: {d}' if st == 'second-pass-exception' else None
    res = judge_batch([('k00000', (case['name'], case['body']))])
    return '; '.join(f'{k}: {d}' for _, k, d in res) or None
