"""C43  Lint auto-fix changes only what the fixed rules target.

ENUM (deviation-bounded) + re-lint + harness token diff + gfortran differential.

System under test: loki/lint/linter.py :: Linter.check / Linter.fix (file rewritten through
Sourcefile.write(conservative=True)), loki/lint/utils.py :: Fixer, and the two rules that define `fix_subroutine`:
lint_rules.ifs_coding_standards_2011.Fortran90OperatorsRule (old-style relational operators -> F90 operators) and
lint_rules.debug_rules.DynamicUboundCheckRule (run-time UBOUND checks of assumed-shape dummies -> explicit shape,
checks removed).  Both rules are always active together.

Two template families, each a base kernel file `kern.F90` (what Loki sees) plus feature blocks (one per branch /
shortcut visible in the rule / fixer code and per context the statement names); all combinations of <= d blocks
(d=1 quick, d=2 thorough):

OP  base: one block IF with `.eq.`.  Blocks:
      statement kinds (ComparisonRetriever walks every node)   inline_if, elseif, where_inline, where_block, do_while,
                                                               assign_logical, index_expr, nested
      locating the operator in the source line(s)              continuation, continuation_noamp, several_per_line,
                                                               same_op_twice, mixed_new_old, upper_case, mixed_case,
                                                               nospace, literal_left
      text that must survive byte-identically                  string_same_stmt, string_other_stmt, comment_inline,
                                                               comment_line, comment_in_block, odd_layout_body, logical_ops,
                                                               untouched_inline_if, untouched_where, untouched_if_inline_comment (no old-style operator)
      Fixer traversal (file-level routines only)               second_routine, function_unit, member, in_module
      cross                                                    ubound_check (a complete UBOUND check in the same routine)
UB  base: assumed-shape a(:, :) with one block IF per dimension (`ubound(a, d) < n` -> stop).  Blocks:
      forms get_ubound_checks / fix_subroutine recognise       reversed, combined_or, inline_form, upper, old_op_in_check,
                                                               nested_in_if, duplicate_check, rank1_too,
                                                               two_arrays_one_if (one IF, dimension 1 of a and of d(:) against n / m)
      near misses                                              partial_other (second array, one dimension checked only),
                                                               size_check, lbound_extra, le_operator
      what removing the conditional removes                    else_branch, comment_in_check
      declaration rewrite                                      shared_decl, dimension_attr
      later uses / untouched text                              ubound_used_elsewhere, whole_array_use, untouched_inline_if,
                                                               untouched_if_inline_comment
      caller                                                   actual_larger (actual extents exceed n, m: the checks pass)
      Fixer traversal                                          member, in_module
      cross                                                    old_op_elsewhere

Oracle (per case; the file is copied to a scratch directory, parsed with Frontend.FP, checked, fixed in place):
  (1) the run reports at least one problem of a fixable rule (else the case is not judged: `nothing-to-fix`);
  (2) after Linter.fix the file is re-read and re-checked: no fixable rule reports anything      -> else `still-reported`
  (3) harness token diff old vs new (own free-form tokenizer: strings, comments, continuation, dot operators, fused
      keywords; identifiers/keywords case-folded, white space and line breaks ignored): aligned by *logical line*;
      every logical line that differs must be a targeted one - an old-style operator spelled new-style and nothing
      else; for UBOUND: deleted lines lie inside IF constructs whose condition checks a *reported* array, replaced
      lines are the declaration statement(s) of reported arrays and declare the same entities      -> else `other-text-changed`
  (4) string literals (outside deleted targeted constructs) are the same sequence, byte for byte; comments the same
      sequence of texts (from `!` to end of line, trailing blanks ignored)                          -> else `string-or-comment-changed`
  (5) original and fixed kernel, each wrapped by the harness into the same module shell (so that assumed-shape and
      explicit-shape dummies both have an explicit interface) and linked with the same harness-owned PROGRAM, build
      with gfortran -O0 -fcheck=bounds and print the same on every input (the checks never fire on the inputs)
                                                                                                   -> xform-compile-error / output-differs
  A Python exception in check or fix is `loki-exception` (the property promises a fixed file); the fixed file not being
  accepted by the frontend any more is `fixed-file-unparsable`.

Shadow fix (DESIGN.md par. 3 "masking"): on the pinned tree Fortran90OperatorsRule.fix_subroutine raises
AttributeError for every report (`Node.update_metadata` does not exist), which would hide everything behind it.
That failure is reported under its own signature; the case is then re-run with the one-line correction of
proposed_fixes/C43_operator_fixer_update_metadata.diff monkey-patched in from the harness and judged as usual.
When the correction is applied to the repository the shadow is never entered and the same signatures result.
"""
import difflib
import os
import re
import shutil
import tempfile
import traceback
from pathlib import Path

from vf import gf, xform
from vf.explore import deviations

PROPERTY = 'C43'
LEVEL = 'exploration'
META = dict(
    engine='enum',
    technique='deviation-bounded exhaustive template enumeration; Linter.check + Linter.fix on a scratch copy, re-lint, '
              'harness tokenizer diff by logical line, string/comment identity, gfortran differential run',
    level_text='all combinations of <= d feature blocks of an operator-rule kernel and of a UBOUND-rule kernel (both fixable '
               'rules active): fixed file is clean for the fixable rules, differs from the original only in targeted '
               'operator tokens / targeted UBOUND constructs and declarations, keeps strings and comments byte-identical and '
               'prints the original output on every input; exhaustive for d',
    level_note='gfortran 12 -O0 -fcheck=bounds is the semantics; the tokenizer is harness code (free-form subset the templates use); '
               'targeted UBOUND statements are derived from the rule\'s own report (reported arrays) and the generator\'s line tags',
)

RELOPS = {'.eq.': '==', '.ne.': '/=', '.lt.': '<', '.le.': '<=', '.gt.': '>', '.ge.': '>='}
DOTNAMES = ('eq', 'ne', 'lt', 'le', 'gt', 'ge', 'and', 'or', 'not', 'eqv', 'neqv', 'true', 'false')
FUSED = {'endif': ('end', 'if'), 'enddo': ('end', 'do'), 'elseif': ('else', 'if'), 'endwhere': ('end', 'where'),
         'endsubroutine': ('end', 'subroutine'), 'endfunction': ('end', 'function'), 'endmodule': ('end', 'module'),
         'selectcase': ('select', 'case'), 'endselect': ('end', 'select')}


# ------------------------------------------------------------------------------------------------ tokenizer
def logical_lines(text):
    """-> list of dict(tokens=[(kind, text)], comments=[str], first=physical line no (0-based), last=...)
    kinds: id (lower-cased), num, str (exact), op.  Continuation `&` (trailing and leading) is layout."""
    out = []
    cur = None
    cont = False
    for ln, line in enumerate(text.splitlines()):
        toks, comment, trailing_amp = _scan(line)
        if cur is None or not cont:
            cur = dict(tokens=[], comments=[], first=ln, last=ln)
            out.append(cur)
        if cont and toks and toks[0] == ('op', '&'):
            toks = toks[1:]
        cur['tokens'] += toks
        cur['last'] = ln
        if comment is not None:
            cur['comments'].append(comment)
        # a comment-only or blank line inside a continued statement does not end the continuation
        if trailing_amp:
            cont = True
        elif cont and not toks:
            cont = True
        else:
            cont = False
    return [ll for ll in out if ll['tokens'] or ll['comments']]


def _scan(line):
    toks = []
    i, n = 0, len(line)
    comment = None
    while i < n:
        c = line[i]
        if c in ' \t':
            i += 1
        elif c == '!':
            comment = line[i:].rstrip()
            break
        elif c in '\'"':
            j = i + 1
            while j < n:
                if line[j] == c:
                    if j + 1 < n and line[j + 1] == c:
                        j += 2
                        continue
                    break
                j += 1
            toks.append(('str', line[i:j + 1]))
            i = j + 1
        elif c.isdigit() or (c == '.' and i + 1 < n and line[i + 1].isdigit()):
            m = re.match(r'\d+', line[i:])
            j = i + (m.end() if m else 0)
            dm = re.match(r'\.([a-zA-Z]+)\.', line[j:])
            if not (dm and dm.group(1).lower() in DOTNAMES):
                m2 = re.match(r'(\.\d*)?([eEdD][+-]?\d+)?(_\w+)?', line[j:])
                j += m2.end()
            toks.append(('num', line[i:j].lower()))
            i = j
        elif c == '.':
            dm = re.match(r'\.([a-zA-Z]+)\.', line[i:])
            if dm and dm.group(1).lower() in DOTNAMES:
                toks.append(('op', dm.group(0).lower()))
                i += dm.end()
            else:
                toks.append(('op', '.'))
                i += 1
        elif c.isalpha() or c == '_':
            m = re.match(r'\w+', line[i:])
            word = m.group(0).lower()
            toks += [('id', w) for w in FUSED.get(word, (word,))]
            i += m.end()
        else:
            two = line[i:i + 2]
            if two in ('==', '/=', '<=', '>=', '=>', '**', '//', '::'):
                toks.append(('op', two))
                i += 2
            else:
                toks.append(('op', c))
                i += 1
    trailing = bool(toks) and toks[-1] == ('op', '&')
    if trailing:
        toks = toks[:-1]
    return toks, comment, trailing


def canon(tokens):
    return tuple((k, RELOPS.get(t, t)) if k == 'op' else (k, t) for k, t in tokens)


def declared_names(tokens):
    """entity names of a declaration statement (tokens after `::`, at parenthesis depth 0)"""
    names, depth, seen = [], 0, False
    prev = None
    for k, t in tokens:
        if (k, t) == ('op', '::'):
            seen = True
            prev = ('op', ',')
            continue
        if not seen:
            continue
        if t == '(':
            depth += 1
        elif t == ')':
            depth -= 1
        elif depth == 0 and k == 'id' and prev == ('op', ','):
            names.append(t)
        if depth == 0:
            prev = (k, t)
    return sorted(names)


def text_diff(old, new, ub_lines, decl_arrays):
    """(3) + (4).  ub_lines: set of 0-based physical line numbers of the old text that belong to IF constructs checking
    a reported array; decl_arrays: names of reported arrays.  -> None or (kind, message)
    The new logical lines must be obtainable from the old ones by (a) keeping a line (canonical tokens equal, raw tokens
    differ only where an old-style operator became its F90 spelling), (b) deleting a line that lies inside a targeted
    UBOUND construct, (c) replacing declaration line(s) of reported arrays by declaration line(s) of the same entities.
    Decided by exhaustive search over all such alignments (identical lines like `end if` make greedy diffs ambiguous)."""
    import sys
    lo, ln_ = logical_lines(old), logical_lines(new)
    la = [x for x in lo if x['tokens']]
    lb = [x for x in ln_ if x['tokens']]
    ca = [canon(x['tokens']) for x in la]
    cb = [canon(x['tokens']) for x in lb]

    def span(x):
        return set(range(x['first'], x['last'] + 1))

    def keep_ok(x, y):
        return all((k1, t1) == (k2, t2) or (k1 == 'op' and RELOPS.get(t1) == t2)
                   for (k1, t1), (k2, t2) in zip(x['tokens'], y['tokens']))

    def is_decl(x):
        return ('op', '::') in x['tokens']

    deletable = [span(x) <= ub_lines for x in la]
    memo = {}
    sys.setrecursionlimit(max(sys.getrecursionlimit(), 10000))

    def go(i, j):
        """-> tuple of deleted old indices if la[i:] can become lb[j:], else None"""
        key = (i, j)
        if key in memo:
            return memo[key]
        res = None
        if i == len(la):
            res = () if j == len(lb) else None
        else:
            if j < len(lb) and ca[i] == cb[j] and keep_ok(la[i], lb[j]):
                r = go(i + 1, j + 1)
                if r is not None:
                    res = r
            if res is None and deletable[i]:
                r = go(i + 1, j)
                if r is not None:
                    res = (i,) + r
            if res is None and is_decl(la[i]):
                # k old declaration lines -> l new declaration lines declaring the same entities, one of them reported
                for k in range(1, 4):
                    olds = la[i:i + k]
                    if len(olds) < k or not all(is_decl(x) for x in olds):
                        break
                    n_old = sorted(sum((declared_names(x['tokens']) for x in olds), []))
                    if not any(nm in decl_arrays for nm in n_old):
                        continue
                    for l in range(1, 6):
                        news = lb[j:j + l]
                        if len(news) < l or not all(is_decl(y) for y in news):
                            break
                        if sorted(sum((declared_names(y['tokens']) for y in news), [])) == n_old:
                            r = go(i + k, j + l)
                            if r is not None:
                                res = r
                                break
                    if res is not None:
                        break
        memo[key] = res
        return res

    deleted = go(0, 0)
    if deleted is None:
        # describe the first point of divergence with a plain diff
        sm = difflib.SequenceMatcher(a=ca, b=cb, autojunk=False)
        for tag, i1, i2, j1, j2 in sm.get_opcodes():
            if tag == 'equal':
                bad = next(((x, y) for x, y in zip(la[i1:i2], lb[j1:j2]) if not keep_ok(x, y)), None)
                if bad:
                    return ('other-text-changed', f'line {bad[0]["first"] + 1}: {_show(bad[0])[:150]!r} became {_show(bad[1])[:150]!r}')
                continue
            olds = [x for x, d in zip(la[i1:i2], deletable[i1:i2]) if not d] or la[i1:i2]
            return ('other-text-changed',
                    f'old line(s) {[x["first"] + 1 for x in olds]} {" | ".join(_show(x) for x in olds)[:200]!r} vs new '
                    f'{" | ".join(_show(y) for y in lb[j1:j2])[:200]!r}')
        return ('other-text-changed', 'no admissible alignment of old and new logical lines')
    removed_lines = set()
    for i in deleted:
        removed_lines |= span(la[i])
    # (4) strings and comments outside removed constructs, in order
    s_old = [t for x in lo if not (x['tokens'] and span(x) <= removed_lines) for k, t in x['tokens'] if k == 'str']
    s_new = [t for x in ln_ for k, t in x['tokens'] if k == 'str']
    if s_old != s_new:
        return ('string-or-comment-changed', f'string literals {s_old} became {s_new}')
    c_all = [c for x in lo for c in x['comments']]
    # comments on removed lines go with them; comment-only lines inside a removed construct may go or stay
    c_min = [c for x in lo if not (span(x) <= ub_lines and (span(x) <= removed_lines or not x['tokens'])) for c in x['comments']]
    c_new = [c for x in ln_ for c in x['comments']]

    def subseq(small, big):
        it = iter(big)
        return all(any(c == d for d in it) for c in small)
    if not (subseq(c_min, c_new) and subseq(c_new, c_all)):
        return ('string-or-comment-changed', f'comments {c_all} became {c_new}')
    return None


def _show(x):
    return ' '.join(t for _, t in x['tokens'])


# ------------------------------------------------------------------------------------------------ templates
# every block: list of lines for the executable part (+ optional extra units / declarations); `#UB:<arr>` at the end
# of a line tags it as part of an IF construct that checks array <arr> (tag removed from the emitted text)
OP_BLOCKS = {
    'inline_if': ['if (m .gt. 2) r = r + 2.0'],
    'elseif': ['if (n .lt. 3) then', '  r = r + 0.25', 'else if (n .ge. 3) then', '  r = r + 0.5', 'else', '  r = r - 1.0', 'end if'],
    'where_inline': ['where (b .lt. 0.0) b = 0.5'],
    'where_block': ['where (b .ge. 1.0)', '  b = b - 1.0', 'elsewhere (b .le. -1.0)', '  b = b + 1.0', 'end where'],
    'do_while': ['i = 1', 'do while (i .lt. n)', '  i = i + 1', '  r = r + 0.5', 'end do'],
    'assign_logical': ['lg = n .eq. 3 .or. lg', 'if (lg) then', '  r = r + 2.0', 'end if'],
    'index_expr': ['b(merge(1, 2, n .gt. 2)) = 1.5'],
    'nested': ['do j = 1, m', '  do i = 1, n', '    if (a(i, j) .gt. 0.0) then', '      if (i .ne. j) a(i, j) = a(i, j) * 2.0',
               '    end if', '  end do', 'end do'],
    'continuation': ['if (n .ge. 2 .and. &', '    & m .le. 5) then', '  r = r + 4.0', 'end if'],
    'continuation_noamp': ['if (n .ge. 2 .and. &', '      m .le. 5) r = r + 4.0'],
    'several_per_line': ['if (n .gt. 1 .and. m .ne. 7 .and. n .le. 9) r = r + 8.0'],
    'same_op_twice': ['if (n .gt. 1 .and. m .gt. 1) r = r + 8.0'],
    'mixed_new_old': ['if (n == 3 .or. m .eq. 2) r = r + 0.125'],
    'upper_case': ['IF (N .EQ. 3) R = R + 16.0'],
    'mixed_case': ['if (n .Ne. 4) r = r + 16.0'],
    'nospace': ['if (n.ne.4) r = r + 32.0'],
    'literal_left': ['if (3.eq.n) r = r + 32.0'],
    'string_same_stmt': ["if (s .ne. 'a .eq. b') r = r + 64.0"],
    'string_other_stmt': ["s = 'x .gt. y'", "if (s == 'x .gt. y') then", '  r = r + 0.25', 'end if'],
    'untouched_inline_if': ['if (m > 2) r = r + 2.0'],
    'untouched_where': ['where (b < 0.0) b = 0.5'],
    'untouched_if_inline_comment': ['if (m > 2) then   ! big m', '  r = r + 2.0', 'end if'],
    'comment_inline': ['if (m .lt. 9) r = r + 1.0   ! keep .lt. "here"'],
    'comment_line': ["! a comment with .eq. and 'quotes'", 'if (m .lt. 9) r = r + 1.0'],
    'comment_in_block': ['if (m .lt. 9) then', '  ! inside: n .ge. m ?', '  r = r + 1.0', 'end if'],
    'odd_layout_body': ['if (m .lt. 9) then', '   R   =  r+1.0', '     b( 1 ) = b(1) &', '        & + 0.5', '  DO i=1,n ; b(i)=b(i)+0.25 ; ENDDO', 'endif'],
    'logical_ops': ['if (.not. (n .eq. 2) .and. (lg .eqv. .false.)) r = r + 0.5'],
}
OP_UNITS = {
    'second_routine': ('call helper(n, r)', '''subroutine helper(n, r)
  implicit none
  integer, intent(in) :: n
  real, intent(inout) :: r
  if (n .ge. 2) r = r + 0.5
end subroutine helper
'''),
    'function_unit': ('r = r + fval(n)', '''function fval(n) result(v)
  implicit none
  integer, intent(in) :: n
  real :: v
  v = 0.25
  if (n .ge. 2) v = 0.75
end function fval
'''),
}
UB_CHECK1 = ['if (ubound(a, 1) < n) then #UB:a', "  print *, 'first dimension of a too short' #UB:a", '  stop 3 #UB:a', 'end if #UB:a']
UB_CHECK2 = ['if (ubound(a, 2) < m) then #UB:a', '  stop 4 #UB:a', 'end if #UB:a']

DRIVER = '''program drv
  use wrap
  implicit none
  integer :: n, m, g, i, j, en
  real, allocatable :: a(:, :), b(:), c(:, :), d(:)
  real :: r
  do g = 1, 3
    n = 1 + g
    m = 5 - g
    en = n + %(extra)d
    allocate(a(en, m), b(n), c(n, m), d(m))
    do j = 1, m
      do i = 1, en
        a(i, j) = real(i) * 0.5 - real(j) * 0.25
      end do
    end do
    do i = 1, n
      b(i) = real(i) - 2.0
    end do
    c = 0.5
    do i = 1, m
      d(i) = real(i) * 0.25 + 1.0
    end do
    r = 0.125
    call kern(n, m, a, b, c, d, r)
    write(*, '(A,I0)') 'G', g
    write(*, '(A,30(1X,ES14.7))') 'A', a
    write(*, '(A,30(1X,ES14.7))') 'B', b
    write(*, '(A,30(1X,ES14.7))') 'C', c
    write(*, '(A,30(1X,ES14.7))') 'D', d
    write(*, '(A,1X,ES14.7)') 'R', r
    deallocate(a, b, c, d)
  end do
end program drv
'''


def _strip_tags(lines):
    """-> (text lines, {line index: array})"""
    out, tags = [], {}
    for i, ln in enumerate(lines):
        m = re.search(r'\s*#UB:(\w+)$', ln)
        if m:
            tags[i] = m.group(1)
            ln = ln[:m.start()]
        out.append(ln)
    return out, tags


def op_program(sw):
    body = ['if (n .eq. 3) then', '  r = r + 1.0', 'end if']
    units = []
    for k in sw:
        if k in OP_BLOCKS:
            body += OP_BLOCKS[k]
        elif k in OP_UNITS:
            body.append(OP_UNITS[k][0])
            units.append(OP_UNITS[k][1])
    a_decl = 'real, intent(inout) :: a(n, m)'
    if 'ubound_check' in sw:
        a_decl = 'real, intent(inout) :: a(:, :)'
        body = UB_CHECK1 + UB_CHECK2 + body
    contains = []
    if 'member' in sw:
        body.append('call inner()')
        contains = ['contains', 'subroutine inner()', '  if (n .le. 7) r = r + 0.25', 'end subroutine inner']
    head = ['subroutine kern(n, m, a, b, c, d, r)', '  implicit none', '  integer, intent(in) :: n, m', f'  {a_decl}',
            '  real, intent(inout) :: b(n)', '  real, intent(inout) :: c(n, m)', '  real, intent(inout) :: d(m)',
            '  real, intent(inout) :: r',
            '  integer :: i, j', '  logical :: lg', '  character(len=16) :: s', "  s = 'abc'", '  lg = .false.', '  i = 1', '  j = 1']
    lines = head + [f'  {ln}' for ln in body] + contains + ['end subroutine kern']
    return lines, units


def ub_program(sw):
    c1, c2 = list(UB_CHECK1), list(UB_CHECK2)
    if 'reversed' in sw:
        c2 = ['if (m > ubound(a, 2)) then #UB:a', '  stop 4 #UB:a', 'end if #UB:a']
    if 'inline_form' in sw:
        c2 = ['if (ubound(a, 2) < m) stop 4 #UB:a']
    if 'upper' in sw:
        c1 = ['IF (UBOUND(A, 1) < N) THEN #UB:a', '  STOP 3 #UB:a', 'END IF #UB:a']
    if 'old_op_in_check' in sw:
        c1 = ['if (ubound(a, 1) .lt. n) then #UB:a', '  stop 3 #UB:a', 'end if #UB:a']
    if 'le_operator' in sw:
        c1 = ['if (ubound(a, 1) <= n - 1) then #UB:a', '  stop 3 #UB:a', 'end if #UB:a']
    if 'size_check' in sw:
        c1 = ['if (size(a, 1) < n) then #UB:a', '  stop 3 #UB:a', 'end if #UB:a']
        c2 = ['if (size(a, 2) < m) then #UB:a', '  stop 4 #UB:a', 'end if #UB:a']
    if 'else_branch' in sw:
        c2 = ['if (ubound(a, 2) < m) then #UB:a', '  stop 4 #UB:a', 'else #UB:a', '  r = r + 8.0 #UB:a', 'end if #UB:a']
    if 'comment_in_check' in sw:
        c1 = ['! the next block guards a', 'if (ubound(a, 1) < n) then   ! dim 1 #UB:a', '  ! give up #UB:a', '  stop 3 #UB:a',
              'end if #UB:a', '! guarded']
    checks = c1 + c2
    if 'combined_or' in sw:
        checks = ['if (ubound(a, 1) < n .or. ubound(a, 2) < m) then #UB:a', '  stop 3 #UB:a', 'end if #UB:a']
    if 'duplicate_check' in sw:
        checks += ['if (ubound(a, 1) < n) stop 5 #UB:a']
    if 'lbound_extra' in sw:
        checks += ['if (lbound(a, 1) > 1) stop 6 #UB:a']
    if 'nested_in_if' in sw:
        checks = ['if (n > 0) then'] + [f'  {ln}' for ln in checks] + ['  r = r + 0.25', 'end if']
    b_decl = 'real, intent(inout) :: b(n)'
    if 'rank1_too' in sw:
        b_decl = 'real, intent(inout) :: b(:)'
        checks += ['if (ubound(b, 1) < n) then #UB:b', '  stop 7 #UB:b', 'end if #UB:b']
    decls = ['real, intent(inout) :: a(:, :)', b_decl, 'real, intent(inout) :: c(n, m)']
    if 'partial_other' in sw:
        decls[2] = 'real, intent(inout) :: c(:, :)'
        checks += ['if (ubound(c, 1) < n) then #UB:c', '  stop 8 #UB:c', 'end if #UB:c']
    if 'shared_decl' in sw:
        decls = ['real, intent(inout) :: a(:, :), c(:, :)', b_decl]
    if 'dimension_attr' in sw:
        decls = ['real, dimension(:, :), intent(inout) :: a, c', b_decl]
    d_decl = 'real, intent(inout) :: d(m)'
    if 'two_arrays_one_if' in sw:
        # one IF checks dimension 1 of two different dummies against different bounds
        d_decl = 'real, intent(inout) :: d(:)'
        checks = ['if (ubound(a, 1) < n .or. ubound(d, 1) < m) then #UB:a', '  stop 3 #UB:a', 'end if #UB:a'] + c2
    decls.append(d_decl)
    work = ['do j = 1, m', '  do i = 1, n', '    a(i, j) = a(i, j) * 2.0 + c(i, j)', '  end do', 'end do',
            'r = r + sum(d) + real(size(d))', 'd(1) = d(1) + 0.5',
            'do i = 1, n', '  b(i) = b(i) + a(i, 1)', 'end do', 'r = r + a(n, m) + a(1, m)']
    if 'ubound_used_elsewhere' in sw:
        work += ['do i = 1, ubound(a, 1)', '  r = r + a(i, 1) * 0.5', 'end do']
    if 'whole_array_use' in sw:
        work += ['r = r + sum(a) + real(size(a))']
    if 'old_op_elsewhere' in sw:
        work += ['if (n .eq. 3) then', '  r = r + 1.0', 'end if']
    if 'untouched_inline_if' in sw:
        work += ['if (n > 100) r = r + 2.0']
    if 'untouched_if_inline_comment' in sw:
        work += ['if (m > 2) then   ! big m', '  r = r + 2.0', 'end if']
    contains = []
    if 'member' in sw:
        work.append('call inner(a)')
        contains = ['contains', 'subroutine inner(q)', '  real, intent(inout) :: q(:, :)', '  if (ubound(q, 1) < n) then #UB:q',
                    '    stop 9 #UB:q', '  end if #UB:q', '  if (ubound(q, 2) < m) stop 9 #UB:q', '  q(1, 1) = q(1, 1) + 1.0',
                    'end subroutine inner']
    head = ['subroutine kern(n, m, a, b, c, d, r)', '  implicit none', '  integer, intent(in) :: n, m'] + [f'  {d}' for d in decls] + \
           ['  real, intent(inout) :: r', '  integer :: i, j']
    lines = head + [f'  {ln}' for ln in checks + work] + contains + ['end subroutine kern']
    return lines, []


FAMILIES = {
    'OP': (op_program, list(OP_BLOCKS) + list(OP_UNITS) + ['member', 'in_module', 'ubound_check']),
    'UB': (ub_program, ['reversed', 'combined_or', 'inline_form', 'upper', 'old_op_in_check', 'nested_in_if', 'duplicate_check',
                        'rank1_too', 'partial_other', 'size_check', 'lbound_extra', 'le_operator', 'else_branch',
                        'comment_in_check', 'shared_decl', 'dimension_attr', 'ubound_used_elsewhere', 'whole_array_use',
                        'actual_larger', 'member', 'in_module', 'old_op_elsewhere', 'untouched_inline_if',
                        'untouched_if_inline_comment', 'two_arrays_one_if']),
}
UB_EXCLUSIVE = [{'two_arrays_one_if', x} for x in ('combined_or', 'upper', 'old_op_in_check', 'le_operator', 'size_check',
                                                       'comment_in_check', 'duplicate_check', 'lbound_extra', 'nested_in_if',
                                                       'rank1_too', 'partial_other', 'shared_decl', 'dimension_attr')] + [{'reversed', 'inline_form'}, {'reversed', 'size_check'}, {'reversed', 'else_branch'}, {'inline_form', 'size_check'},
                {'inline_form', 'else_branch'}, {'size_check', 'else_branch'}, {'upper', 'old_op_in_check'}, {'upper', 'le_operator'},
                {'upper', 'size_check'}, {'upper', 'comment_in_check'}, {'old_op_in_check', 'le_operator'},
                {'old_op_in_check', 'size_check'}, {'old_op_in_check', 'comment_in_check'}, {'le_operator', 'size_check'},
                {'le_operator', 'comment_in_check'}, {'size_check', 'comment_in_check'}, {'shared_decl', 'dimension_attr'},
                {'shared_decl', 'partial_other'}, {'dimension_attr', 'partial_other'},
                {'combined_or', 'reversed'}, {'combined_or', 'inline_form'}, {'combined_or', 'upper'}, {'combined_or', 'old_op_in_check'},
                {'combined_or', 'le_operator'}, {'combined_or', 'size_check'}, {'combined_or', 'else_branch'},
                {'combined_or', 'comment_in_check'}]


def make_cases(d):
    cases = []
    for fam, (gen, names) in FAMILIES.items():
        for dev in deviations({k: [True] for k in names}, d):
            sw = [k for k in names if k in dev]
            if fam == 'UB' and any(ex <= set(sw) for ex in UB_EXCLUSIVE):
                continue
            lines, units = gen(sw)
            lines, tags = _strip_tags(lines)
            text = '\n'.join(lines) + '\n' + ''.join(units)
            offset = 0
            if 'in_module' in sw:
                text = 'module kmod\n  implicit none\ncontains\n' + text + 'end module kmod\n'
                offset = 3
            extra = 1 if 'actual_larger' in sw else 0
            cases.append(dict(id=f'{fam}:{"+".join(["base"] + sw)}', family=fam, switches=sw,
                              sources=[['kern.F90', text]], driver=DRIVER % dict(extra=extra),
                              ub_tags={str(i + offset): arr for i, arr in tags.items()},
                              in_module='in_module' in sw, xform='lintfix', opts={}))
    return cases


# ------------------------------------------------------------------------------------------------ run one case
def rules():
    import lint_rules.ifs_coding_standards_2011 as r1
    import lint_rules.debug_rules as r2
    return [r1.Fortran90OperatorsRule, r2.DynamicUboundCheckRule]


def shadow_fix_subroutine(cls, subroutine, rule_report, config):  # pylint: disable=unused-argument
    """the correction of proposed_fixes/C43_operator_fixer_update_metadata.diff"""
    mapper = {}
    for report in rule_report.problem_reports:
        node = report.location
        if getattr(node, 'source', None) is not None:
            node.source.invalidate()
        mapper[node] = node
    return mapper


def lint(path, fix):
    """-> (problem messages of fixable rules [(rule, msg)], exception text or None)"""
    from loki import Sourcefile, Frontend
    from loki.lint import Linter, Reporter
    sf = Sourcefile.from_file(str(path), frontend=Frontend.FP)
    linter = Linter(Reporter([]), rules=rules(), config={'fix': fix})
    report = linter.check(sf)
    msgs = [(rr.rule.__name__, pr.msg) for rr in report.fixable_reports for pr in rr.problem_reports]
    if fix:
        linter.fix(sf, report)
    return msgs


def wrap(text, in_module):
    """harness-owned shell: the (file-level) kernel text becomes a procedure of module `wrap`"""
    if in_module:
        return text + 'module wrap\n  use kmod\nend module wrap\n'
    return 'module wrap\ncontains\n' + text + 'end module wrap\n'


def apply(case, files):  # pylint: disable=unused-argument
    """C40/C41 interface: fixed text of kern.F90 (shadow fix applied when the pinned fixer raises)"""
    r = fix_text(case)
    if r.get('exception') and not r.get('new'):
        raise RuntimeError(r['exception'])
    return {'kern.F90': r['new']}


def fix_text(case, shadow=False):
    xform.quiet()
    base = '/dev/shm' if os.path.isdir('/dev/shm') and os.access('/dev/shm', os.W_OK) else None
    tmp = tempfile.mkdtemp(prefix='c43_', dir=base)
    import lint_rules.ifs_coding_standards_2011 as r1
    orig_fix = r1.Fortran90OperatorsRule.__dict__['fix_subroutine']
    try:
        if shadow:
            r1.Fortran90OperatorsRule.fix_subroutine = classmethod(shadow_fix_subroutine)
        p = Path(tmp) / 'kern.F90'
        old = case['sources'][0][1]
        p.write_text(old)
        out = dict(old=old, new=None, before=[], after=None, exception=None, phase=None)
        try:
            out['phase'] = 'check+fix'
            out['before'] = lint(p, fix=True)
            out['new'] = p.read_text()
            out['phase'] = 're-check'
            out['after'] = lint(p, fix=False)
        except Exception as ex:  # pylint: disable=broad-except
            tb = traceback.format_exc().strip().splitlines()
            where = next((ln.strip() for ln in reversed(tb) if ln.strip().startswith('File "') and
                          ('/loki/' in ln or '/lint_rules/' in ln)), '')
            where = re.sub(r'File ".*?/((?:loki|lint_rules)/[^"]*)", line \d+, in (\w+)', r'\1:\2', where)
            out['exception'] = f'{type(ex).__name__}: {str(ex)[:200]} @ {where} ({out["phase"]})'
        return out
    finally:
        if shadow:
            r1.Fortran90OperatorsRule.fix_subroutine = orig_fix
        shutil.rmtree(tmp, ignore_errors=True)


def judge(case, r, orig, base=None):
    """verdict for one fix attempt (r from fix_text)"""
    if r['exception']:
        if r['phase'] == 're-check' and 'SyntaxError' in r['exception']:
            return dict(verdict='fixed-file-unparsable', detail=r['exception'])
        return dict(verdict='loki-exception', detail=r['exception'])
    if not r['before']:
        return dict(verdict='nothing-to-fix', detail='')
    if r['after']:
        return dict(verdict='still-reported', detail=f'{len(r["after"])} report(s) after the fix, first: {r["after"][0]}')
    reported = set()
    for rule, msg in r['before']:
        m = re.search(r'assumed-shape arg: (\w+)', msg)
        if rule == 'DynamicUboundCheckRule' and m:
            reported.add(m.group(1).lower())
    ub_lines = {int(i) for i, arr in case['ub_tags'].items() if arr in reported}
    td = text_diff(r['old'], r['new'], ub_lines, reported)
    if td:
        return dict(verdict=td[0], detail=td[1])
    o = orig
    t = xform.build_run([['wrap.f90', wrap(r['new'], case['in_module'])]], case['driver'], base=base)
    if not t['ok']:
        kind = 'xform-compile-error' if t['stage'] == 'compile' else 'xform-run-error'
        return dict(verdict=kind, detail=(t['err'] or '')[-700:])
    x, y = xform.norm_out(o['out']), xform.norm_out(t['out'])
    if x != y:
        k = next((i for i, (p, q) in enumerate(zip(x, y)) if p != q), min(len(x), len(y)))
        return dict(verdict='output-differs', detail=f'first difference at output line {k + 1}: original '
                                                     f'{x[k] if k < len(x) else "<eof>"!r} vs fixed {y[k] if k < len(y) else "<eof>"!r}')
    return dict(verdict='ok', detail='', changed=r['old'] != r['new'], reports=len(r['before']))


def run_case(case, base=None):
    """-> list of result dicts: the real run, and - if the real run dies of the known fixer AttributeError - the shadow run"""
    o = xform.build_run([['wrap.f90', wrap(case['sources'][0][1], case['in_module'])]], case['driver'], base=base)
    if not o['ok']:
        return [dict(verdict='HARNESS', detail=f'original fails at {o["stage"]}: {o["err"][-500:]}', shadow=False)]
    ft = fix_text(case)
    if ft['exception']:
        ft = fix_text(case)     # a defect fails again; a transient failure of the shared machine does not
    real = judge(case, ft, o, base=base)
    real['shadow'] = False
    out = [real]
    if real['verdict'] == 'loki-exception' and 'update_metadata' in real['detail']:
        sh = judge(case, fix_text(case, shadow=True), o, base=base)
        sh['shadow'] = True
        out.append(sh)
    return out


def worker(case):
    res = run_case(case, base=worker.base)
    return dict(id=case['id'], results=res)


worker.base = None
GOOD = ('ok', 'nothing-to-fix')


def signature(case, r, singles):
    if r['verdict'] == 'loki-exception':
        core = re.sub(r'\s+', ' ', r['detail'])
        core = re.sub(r"'\w+' object", 'node object', core)
        if 'update_metadata' in core:
            return 'loki-exception Fortran90OperatorsRule.fix_subroutine: update_metadata does not exist'
    fam = case['family']
    for sw in [None] + list(case['switches']):
        single = singles.get((fam, sw, r['shadow'])) or singles.get((fam, sw, not r['shadow']))
        if single and single['verdict'] != r['verdict']:
            single = singles.get((fam, sw, not r['shadow'])) or single
        if single and single['verdict'] == r['verdict'] and (single['verdict'] != 'loki-exception' or
                                                             single['detail'].split('@')[0] == r['detail'].split('@')[0]):
            return f'{r["verdict"]} block={sw or "base"} family={fam}'
    return f'{r["verdict"]} blocks={"+".join(case["switches"]) or "base"} family={fam}'


def run(ctx):
    d = 1 if ctx.quick else 2
    cases = make_cases(d)
    worker.base = str(ctx.scratch)
    ctx.reset_pool()
    results = xform.judge_cases(ctx, cases, worker)
    if os.environ.get('VERIF_DUMP'):
        import json
        with open(os.environ['VERIF_DUMP'], 'w') as fh:
            json.dump([dict(id=c['id'], results=w['results']) for c, w in zip(cases, results)], fh)
    singles = {}
    for c, w in zip(cases, results):
        if len(c['switches']) <= 1:
            for r in w['results']:
                singles[(c['family'], c['switches'][0] if c['switches'] else None, r['shadow'])] = r
    tally, judged, changed_ok, shadowed, reports = {}, 0, 0, 0, 0
    per_family = {}
    for c, w in zip(cases, results):
        pf = per_family.setdefault(c['family'], dict(cases=0, fixed_ok=0))
        pf['cases'] += 1
        for r in w['results']:
            ctx.require(r['verdict'] != 'HARNESS', f'generated program {c["id"]} does not build/run before the fix: {r["detail"]}')
            key = ('shadow:' if r['shadow'] else '') + r['verdict']
            tally[key] = tally.get(key, 0) + 1
            shadowed += int(r['shadow'])
            if r['verdict'] not in GOOD:
                ctx.violation(signature(c, r, singles), dict(c, shadow=r['shadow']), f'{r["verdict"]}: {r["detail"]}')
        final = w['results'][-1]
        judged += int(final['verdict'] != 'nothing-to-fix')
        if final['verdict'] == 'ok' and final.get('changed'):
            changed_ok += 1
            pf['fixed_ok'] += 1
            reports += final.get('reports', 0)
    ctx.require(judged >= len(cases) // 2, f'vacuous: only {judged} of {len(cases)} cases had anything to fix')
    ctx.require(changed_ok >= 5, f'vacuous: only {changed_ok} cases were fixed and passed every oracle stage ({tally})')
    ctx.cov.update(
        evaluations=len(cases), distinct_nontrivial=changed_ok, verdicts=tally, shadow_runs=shadowed, per_family=per_family,
        problem_reports_fixed=reports, exhaustive=True,
        bound=dict(max_blocks=d, blocks={f: len(n) for f, (_, n) in FAMILIES.items()}, inputs=3),
        rule=f'per family all combinations of <= {d} feature blocks added to the base kernel (mutually exclusive spellings of '
             'the same check excluded); both fixable rules active; 3 inputs per run; non-trivial = the fixer changed the '
             'file and every oracle stage (re-lint, token diff, strings/comments, gfortran) passed',
        samples=[dict(id=cases[0]['id'], text=cases[0]['sources'][0][1]), dict(id=cases[-1]['id'], text=cases[-1]['sources'][0][1])],
    )
    ctx.assumptions += ['gfortran -O0 -fcheck=bounds defines behaviour', 'the UBOUND checks never fire on the generated inputs',
                        'harness tokenizer covers the free-form subset used by the templates',
                        'shadow fix = proposed_fixes/C43_operator_fixer_update_metadata.diff, only entered while the pinned '
                        'fixer raises AttributeError']


def replay(case):
    res = run_case(case)
    want_shadow = bool(case.get('shadow'))
    for r in res:
        if r['verdict'] == 'HARNESS':
            raise RuntimeError(r['detail'])
        if r['shadow'] == want_shadow:
            return None if r['verdict'] in GOOD else f'{r["verdict"]}: {r["detail"]}'
    return None
