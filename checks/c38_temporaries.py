"""C38  Temporary hoisting and stack/pool allocation preserve behaviour, with enough storage on every path.

ENUM (deviation-bounded) + gfortran differential.  A driver (block loop) + kernel (+ nested kernels inner1/inner2/
inner3/fill) with local temporary arrays is assembled from feature switches, written to a scratch directory and
processed by a *real* Scheduler (vf/sccgen.py: default role kernel, routine `driver` role driver, stub `parkind1`
ignored + passed as definitions, as in loki/transformations/temporaries/tests) with one allocator variant; the
processed call tree is built with gfortran against the same harness-owned PROGRAM as the original.

Storage sufficiency ("enough storage for every temporary on every path"): both programs are built with
`-fcheck=bounds -fsanitize=address`.  -fcheck=bounds guards every subscript / section of the stack arrays
(FtrPtr / DirectIdx / raw stack dummies have explicit extents = the computed size) and of the hoisted dummies;
AddressSanitizer guards the *actual* storage behind explicit-shape dummies (a hoisted array declared or allocated
too small in the driver overflows its heap/stack block), the Cray-pointer pool (pointees are invisible to
-fcheck=bounds) and, for the pool allocator, the generated `IF (YLSTACK_L > YLSTACK_U) STOP` guard fires as a
run error.  Any such event is an `xform-run-error` verdict.

Variants (INCLUDED iff the output builds with gfortran on the default template - decided at triage, re-verified at
every run; an included variant that stops building is a violation, an excluded one that starts building is enumerated too):
  hoist()                         HoistTemporaryArraysAnalysis + HoistVariablesTransformation (automatic arrays in the driver)
  hoist(as_kwarguments=True)
  hoist_alloc()                   ... + HoistTemporaryArraysTransformationAllocatable
  hoist_alloc(dim_vars=nz)        only temporaries with `nz` in their shape are hoisted
  ftrptr / diridx                 FtrPtrStackTransformation / DirectIdxStackTransformation (int_kind default JWIM, provided by the stub)
  rawstack                        TemporariesRawStackTransformation
  pool(check_bounds=True|False, cray_ptr_loc_rhs=False|True)   TemporariesPoolAllocatorTransformation; its Cray pointers need
                                  `-fcray-pointer` (a gfortran language option, the only non-default flag used): included with
                                  that flag and named as such in the evidence; not part of make_cases(d) as seen by C40/C41
see VARIANTS / CONDITIONAL below for the list as triaged (ftrptr / diridx do not build on the pinned tree).
Bounds: quick = every combination of <= 1 switch x all variants; thorough = quick + every pair of switches x one
default-option variant per allocator family (PAIRED).

Switches - one per branch visible in hoist_variables.py / stack_allocator.py / raw_stack_allocator.py / pool_allocator.py:
  base             one rank-2 real(jprb) temporary zt(nlon, nz)
  rank1 rank3      temporaries z1(nlon), z3(nlon, nz, 2)
  kind4 kind_default int_tmp log_tmp     real(jprm), default real, integer(jpim), logical temporaries (one stack per type/kind)
  two_same         second temporary of the same type and kind (offset of the 2nd array on the stack)
  size_sum         zs(nlon, nz + nk)         (sum of dummies)
  size_np1         zp(nlon, nz + 1)
  size_lb0         z0(nlon, 0:nz)            (RangeIndex shape, lower bound 0)
  size_dt          zg(nlon, geom%nlev)       (derived-type member)
  whole_array      `zw = 0.5` whole-array statement on a temporary
  section_use      `zx(:, 1) = ..`, `zx(start:end, 2) = ..` sections of a temporary
  pass_tmp         a temporary passed as actual argument to a nested kernel that fills it
  nested_seq       kernel calls inner1 then inner2 (siblings with different temporaries: max over paths)
  nested_deep      inner1 calls inner3 (three levels; inner3 names its vertical extent `klev`, so sizes must be translated
                   through the call signature)
  inner_twice_shrink / inner_twice_grow   inner1 called twice with different vertical extents (nz then nz-1 / nz-1 then nz)
  branch_skip      the inner call sits in a branch that is skipped for some inputs
  driver_twice     kernel called twice in the block loop
  optional_arg     inner1 has a trailing OPTIONAL dummy (stack arguments are inserted in front of it)
  unused_tmp       declared, never used temporary
  local_alloc      ALLOCATABLE local array (must be left alone)
  const_tmp        constant-size local array (must be left alone)
Only standard-conforming single-column programs; exact dyadic reals (also exact in real(4)).
"""
import os

from vf import xform, sccgen
from vf.explore import deviations

PROPERTY = 'C38'
LEVEL = 'exploration'
META = dict(
    engine='enum',
    technique='deviation-bounded exhaustive template enumeration x allocator variants through a real Scheduler; gfortran '
              'differential run with -fcheck=bounds and AddressSanitizer as storage oracle',
    level_text='all combinations of <= d temporary-array feature switches x every allocator variant that builds with gfortran '
               '(hoisting to automatic / allocatable driver arrays, FtrPtr / DirectIdx / raw stack, Cray-pointer pool): '
               'transformed call tree builds, prints exactly the original output and never touches storage outside the '
               'hoisted arrays / stacks on any input of the grid; exhaustive for d',
    level_note='gfortran 12 -O0 -fcheck=bounds -fsanitize=address is the semantics and the storage oracle; exact dyadic reals; '
               'variants that do not build on the default template are excluded and named in the evidence',
)

DIMS = '''module geom_mod
  use parkind1, only: jpim
  implicit none
  type geom_type
    integer(kind=jpim) :: nlev
  end type geom_type
end module geom_mod
'''

USE_KINDS = '    use parkind1, only: jpim, jprb, jprm, jwim\n'

# kernel blocks: (declarations, body)
BLOCKS = {
    'rank1': ('    real(kind=jprb) :: z1(nlon)\n', '''    do jl = start, end
      z1(jl) = q(jl, 1) * 0.25_jprb + 1.0_jprb
    end do
    do jl = start, end
      q(jl, nz) = q(jl, nz) + z1(jl)
    end do
'''),
    'rank3': ('    real(kind=jprb) :: z3(nlon, nz, 2)\n', '''    do jm = 1, 2
      do jk = 1, nz
        do jl = start, end
          z3(jl, jk, jm) = q(jl, jk) * 0.5_jprb + real(jm, jprb)
        end do
      end do
    end do
    do jk = 1, nz
      do jl = start, end
        q(jl, jk) = z3(jl, jk, 1) - z3(jl, nz + 1 - jk, 2) * 0.25_jprb
      end do
    end do
'''),
    'kind4': ('    real(kind=jprm) :: z4(nlon, nz)\n', '''    do jk = 1, nz
      do jl = start, end
        z4(jl, jk) = real(jk + jl, jprm) * 0.5_jprm
      end do
    end do
    do jk = 1, nz
      do jl = start, end
        q(jl, jk) = q(jl, jk) + real(z4(jl, nz + 1 - jk), jprb)
      end do
    end do
'''),
    'kind_default': ('    real :: zd(nlon, nz)\n', '''    do jk = 1, nz
      do jl = start, end
        zd(jl, jk) = real(2 * jk - jl) * 0.25
      end do
    end do
    do jk = 1, nz
      do jl = start, end
        q(jl, jk) = q(jl, jk) - real(zd(jl, nz + 1 - jk), jprb)
      end do
    end do
'''),
    'int_tmp': ('    integer(kind=jpim) :: it(nlon, nz)\n', '''    do jk = 1, nz
      do jl = start, end
        it(jl, jk) = jl + 2 * jk
      end do
    end do
    do jk = 1, nz
      do jl = start, end
        q(jl, jk) = q(jl, jk) + real(it(jl, nz + 1 - jk), jprb) * 0.25_jprb
      end do
    end do
'''),
    'log_tmp': ('    logical :: lt(nlon, nz)\n', '''    do jk = 1, nz
      do jl = start, end
        lt(jl, jk) = q(jl, jk) > 0.5_jprb
      end do
    end do
    do jk = 1, nz
      do jl = start, end
        if (lt(jl, nz + 1 - jk)) q(jl, jk) = q(jl, jk) - 0.25_jprb
      end do
    end do
'''),
    'two_same': ('    real(kind=jprb) :: zu(nlon, nz)\n', '''    do jk = 1, nz
      do jl = start, end
        zu(jl, jk) = q(jl, jk) - 1.0_jprb
        zt(jl, jk) = q(jl, jk) + 2.0_jprb
      end do
    end do
    do jk = 1, nz
      do jl = start, end
        q(jl, jk) = zu(jl, nz + 1 - jk) * 0.5_jprb + zt(jl, jk) * 0.25_jprb
      end do
    end do
'''),
    'size_sum': ('    real(kind=jprb) :: zs(nlon, nz + nk)\n', '''    do jk = 1, nz + nk
      do jl = start, end
        zs(jl, jk) = real(jk, jprb) * 0.5_jprb + q(jl, 1)
      end do
    end do
    do jk = 1, nz
      do jl = start, end
        q(jl, jk) = q(jl, jk) + zs(jl, jk + nk)
      end do
    end do
'''),
    'size_np1': ('    real(kind=jprb) :: zp(nlon, nz + 1)\n', '''    do jk = 1, nz + 1
      do jl = start, end
        zp(jl, jk) = real(jk * jl, jprb) * 0.25_jprb
      end do
    end do
    do jk = 1, nz
      do jl = start, end
        q(jl, jk) = q(jl, jk) + zp(jl, jk + 1) - zp(jl, jk)
      end do
    end do
'''),
    'size_lb0': ('    real(kind=jprb) :: z0(nlon, 0:nz)\n', '''    do jk = 0, nz
      do jl = start, end
        z0(jl, jk) = real(jk + 1, jprb) * 0.5_jprb + q(jl, nz)
      end do
    end do
    do jk = 1, nz
      do jl = start, end
        q(jl, jk) = q(jl, jk) + z0(jl, jk - 1) * 0.5_jprb
      end do
    end do
'''),
    'size_dt': ('    real(kind=jprb) :: zg(nlon, geom%nlev)\n', '''    do jk = 1, geom%nlev
      do jl = start, end
        zg(jl, jk) = real(jk, jprb) * 0.25_jprb - q(jl, 1)
      end do
    end do
    do jl = start, end
      q(jl, 1) = q(jl, 1) + zg(jl, geom%nlev) + zg(jl, 1)
    end do
'''),
    'whole_array': ('    real(kind=jprb) :: zw(nlon, nz)\n', '''    zw = 0.5_jprb
    do jk = 1, nz
      do jl = start, end
        q(jl, jk) = q(jl, jk) + zw(jl, jk)
        zw(jl, jk) = q(jl, jk)
      end do
    end do
    do jl = start, end
      q(jl, 1) = q(jl, 1) + zw(jl, nz) * 0.5_jprb
    end do
'''),
    'section_use': ('    real(kind=jprb) :: zx(nlon, nz)\n', '''    zx(:, 1) = 1.5_jprb
    zx(start:end, 2) = 2.0_jprb
    do jk = 3, nz
      do jl = start, end
        zx(jl, jk) = q(jl, jk) * 0.5_jprb
      end do
    end do
    do jk = 1, nz
      do jl = start, end
        q(jl, jk) = q(jl, jk) + zx(jl, nz + 1 - jk)
      end do
    end do
'''),
    'pass_tmp': ('    real(kind=jprb) :: zy(nlon, nz)\n', '''    call fill(start, end, nlon, nz, q, zy)
    do jk = 1, nz
      do jl = start, end
        q(jl, jk) = q(jl, jk) + zy(jl, nz + 1 - jk)
      end do
    end do
'''),
    'nested_seq': ('', '''    call inner1(start, end, nlon, nz, q{OPT})
    call inner2(start, end, nlon, nz, nk, q)
'''),
    'nested_deep': ('', '''    call inner1(start, end, nlon, nz, q{OPT})
'''),
    'inner_twice_shrink': ('', '''    call inner1(start, end, nlon, nz, q{OPT})
    call inner1(start, end, nlon, nz - 1, q(:, 1:nz - 1){OPT})
'''),
    'inner_twice_grow': ('', '''    call inner1(start, end, nlon, nz - 1, q(:, 1:nz - 1){OPT})
    call inner1(start, end, nlon, nz, q{OPT})
'''),
    'branch_skip': ('', '''    if (nz > 3) then
      call inner1(start, end, nlon, nz, q{OPT})
    end if
'''),
    'unused_tmp': ('    real(kind=jprb) :: zn(nlon, nz)\n', ''),
    'local_alloc': ('    real(kind=jprb), allocatable :: za(:, :)\n', '''    allocate(za(nlon, nz))
    do jk = 1, nz
      do jl = start, end
        za(jl, jk) = q(jl, jk) * 0.5_jprb
      end do
    end do
    do jl = start, end
      q(jl, 1) = q(jl, 1) + za(jl, nz)
    end do
    deallocate(za)
'''),
    'const_tmp': ('    real(kind=jprb) :: zk(3)\n', '''    zk(1) = 0.5_jprb
    zk(2) = 1.5_jprb
    zk(3) = zk(1) + zk(2)
    do jl = start, end
      q(jl, 1) = q(jl, 1) + zk(3)
    end do
'''),
}
STRUCTURAL = ['driver_twice', 'optional_arg']
SWITCHES = list(BLOCKS) + STRUCTURAL
NEEDS_INNER1 = {'nested_seq', 'nested_deep', 'inner_twice_shrink', 'inner_twice_grow', 'branch_skip', 'optional_arg'}


def kernel_source(sw):
    geom = 'size_dt' in sw
    uses = USE_KINDS
    if geom:
        uses += '    use geom_mod, only: geom_type\n'
    if sw & NEEDS_INNER1:
        uses += '    use inner1_mod, only: inner1\n'
    if 'nested_seq' in sw:
        uses += '    use inner2_mod, only: inner2\n'
    if 'pass_tmp' in sw:
        uses += '    use fill_mod, only: fill\n'
    decl = '''    integer(kind=jpim), intent(in) :: start, end, nlon, nz, nk
'''
    if geom:
        decl += '    type(geom_type), intent(in) :: geom\n'
    decl += '''    real(kind=jprb), intent(inout) :: q(nlon, nz)
    real(kind=jprb) :: zt(nlon, nz)
    integer(kind=jpim) :: jl, jk, jm
'''
    body = '''    do jk = 1, nz
      do jl = start, end
        zt(jl, jk) = q(jl, jk) * 0.5_jprb + 1.0_jprb
      end do
    end do
    do jk = 1, nz
      do jl = start, end
        q(jl, jk) = q(jl, jk) + zt(jl, nz + 1 - jk)
      end do
    end do
'''
    blocks = [k for k in BLOCKS if k in sw]
    if 'optional_arg' in sw and not sw & (NEEDS_INNER1 - {'optional_arg'}):
        blocks.append('nested_deep')      # optional_arg alone: one plain call of inner1
    for k in blocks:
        decl += BLOCKS[k][0]
        body += BLOCKS[k][1]
    body = body.replace('{OPT}', ', 0.5_jprb' if 'optional_arg' in sw else '')
    args = 'start, end, nlon, nz, nk, ' + ('geom, ' if geom else '') + 'q'
    return f'''module kernel_mod
  implicit none
contains
  subroutine kernel({args})
{uses}    implicit none
{decl}{body}  end subroutine kernel
end module kernel_mod
'''


def inner1_source(sw):
    opt = 'optional_arg' in sw
    deep = 'nested_deep' in sw
    uses = USE_KINDS + ('    use inner3_mod, only: inner3\n' if deep else '')
    return f'''module inner1_mod
  implicit none
contains
  subroutine inner1(start, end, nlon, nz, q{", popt" if opt else ""})
{uses}    implicit none
    integer(kind=jpim), intent(in) :: start, end, nlon, nz
    real(kind=jprb), intent(inout) :: q(nlon, nz)
{"    real(kind=jprb), optional, intent(in) :: popt" + chr(10) if opt else ""}    real(kind=jprb) :: zi(nlon, nz)
    integer(kind=jpim) :: jl, jk
    do jk = 1, nz
      do jl = start, end
        zi(jl, jk) = q(jl, jk) * 0.5_jprb - 0.25_jprb
      end do
    end do
{"    call inner3(start, end, nlon, nz, q)" + chr(10) if deep else ""}    do jk = 1, nz
      do jl = start, end
        q(jl, jk) = q(jl, jk) + zi(jl, nz + 1 - jk)
      end do
    end do
{"    if (present(popt)) then" + chr(10) + "      do jl = start, end" + chr(10) + "        q(jl, 1) = q(jl, 1) + popt" + chr(10) + "      end do" + chr(10) + "    end if" + chr(10) if opt else ""}  end subroutine inner1
end module inner1_mod
'''


INNER2 = f'''module inner2_mod
  implicit none
contains
  subroutine inner2(start, end, nlon, nz, nk, q)
{USE_KINDS}    implicit none
    integer(kind=jpim), intent(in) :: start, end, nlon, nz, nk
    real(kind=jprb), intent(inout) :: q(nlon, nz)
    real(kind=jprb) :: zj(nlon, nz + nk)
    real(kind=jprb) :: zj1(nlon)
    integer(kind=jpim) :: jl, jk
    do jk = 1, nz + nk
      do jl = start, end
        zj(jl, jk) = real(jk, jprb) * 0.25_jprb
      end do
    end do
    do jl = start, end
      zj1(jl) = zj(jl, nz + nk) + q(jl, 1)
    end do
    do jk = 1, nz
      do jl = start, end
        q(jl, jk) = q(jl, jk) * 0.5_jprb + zj(jl, jk + nk) + zj1(jl)
      end do
    end do
  end subroutine inner2
end module inner2_mod
'''

INNER3 = f'''module inner3_mod
  implicit none
contains
  subroutine inner3(start, end, nlon, klev, p)
{USE_KINDS}    implicit none
    integer(kind=jpim), intent(in) :: start, end, nlon, klev
    real(kind=jprb), intent(inout) :: p(nlon, klev)
    real(kind=jprb) :: zh(nlon, klev + 1)
    integer(kind=jpim) :: jl, jk
    do jk = 1, klev + 1
      do jl = start, end
        zh(jl, jk) = real(jk + jl, jprb) * 0.5_jprb
      end do
    end do
    do jk = 1, klev
      do jl = start, end
        p(jl, jk) = p(jl, jk) + zh(jl, jk + 1) * 0.25_jprb
      end do
    end do
  end subroutine inner3
end module inner3_mod
'''

FILL = f'''module fill_mod
  implicit none
contains
  subroutine fill(start, end, nlon, nz, q, y)
{USE_KINDS}    implicit none
    integer(kind=jpim), intent(in) :: start, end, nlon, nz
    real(kind=jprb), intent(in) :: q(nlon, nz)
    real(kind=jprb), intent(inout) :: y(nlon, nz)
    real(kind=jprb) :: zf(nlon)
    integer(kind=jpim) :: jl, jk
    do jl = start, end
      zf(jl) = q(jl, 1) * 0.5_jprb
    end do
    do jk = 1, nz
      do jl = start, end
        y(jl, jk) = q(jl, jk) * 0.25_jprb + zf(jl)
      end do
    end do
  end subroutine fill
end module fill_mod
'''


def driver_source(sw):
    geom = 'size_dt' in sw
    uses = USE_KINDS + ('    use geom_mod, only: geom_type\n' if geom else '') + '    use kernel_mod, only: kernel\n'
    call = f'      call kernel(start, end, nlon, nz, nk, {"geom, " if geom else ""}q(:, :, b))\n'
    return f'''module driver_mod
  implicit none
contains
  subroutine driver(nlon, nz, nb, nk, istart, iend, {"geom, " if geom else ""}q)
{uses}    implicit none
    integer(kind=jpim), intent(in) :: nlon, nz, nb, nk, istart, iend
{"    type(geom_type), intent(in) :: geom" + chr(10) if geom else ""}    real(kind=jprb), intent(inout) :: q(nlon, nz, nb)
    integer(kind=jpim) :: b, start, end
    start = istart
    end = iend
    do b = 1, nb
{call}{call if "driver_twice" in sw else ""}    end do
  end subroutine driver
end module driver_mod
'''


PROGRAM = '''program drv
  use parkind1, only: jpim, jprb
  use driver_mod, only: driver
@USEGEOM@  implicit none
@DECLGEOM@  integer(kind=jpim), parameter :: ng = 3
  integer(kind=jpim), parameter :: gnlon(ng) = (/ 4, 5, 3 /), gnz(ng) = (/ 3, 4, 5 /), gnb(ng) = (/ 2, 3, 1 /)
  integer(kind=jpim), parameter :: gs(ng) = (/ 1, 2, 1 /), ge(ng) = (/ 4, 4, 3 /), gnk(ng) = (/ 2, 1, 3 /)
  integer(kind=jpim) :: g, nlon, nz, nb, jl, jk, b
  real(kind=jprb), allocatable :: q(:, :, :)
  do g = 1, ng
    nlon = gnlon(g); nz = gnz(g); nb = gnb(g)
    allocate(q(nlon, nz, nb))
    do b = 1, nb
      do jl = 1, nlon
        do jk = 1, nz
          q(jl, jk, b) = real(mod(jl + 2 * jk + 3 * b, 7), jprb) * 0.25_jprb - 0.5_jprb
        end do
      end do
    end do
@SETGEOM@    call driver(nlon, nz, nb, gnk(g), gs(g), ge(g), @ARGGEOM@q)
    write(*, '(A,I0)') 'G', g
    do b = 1, nb
      do jk = 1, nz
        write(*, '(A,I0,1X,I0,20(1X,ES22.15))') 'Q', b, jk, q(:, jk, b)
      end do
    end do
    deallocate(q)
  end do
end program drv
'''

# (family, options) - included variants: their output builds with gfortran on the default template (triage 2026-09-22)
VARIANTS = [
    ('hoist', dict()), ('hoist', dict(as_kwarguments=True)),
    ('hoist_alloc', dict()), ('hoist_alloc', dict(dim_vars='nz')),
    ('rawstack', dict()),
    ('pool', dict(check_bounds=True, cray_ptr_loc_rhs=False)), ('pool', dict(check_bounds=False, cray_ptr_loc_rhs=False)),
    ('pool', dict(check_bounds=True, cray_ptr_loc_rhs=True)),
]
# variants whose output needs no compiler extension flag (what C40 / C41 see through make_cases(d)); the pool variants emit
# Cray pointers and are built with `-fcray-pointer` (gfortran refuses them without the flag), see case_flags()
PLAIN = [v for v in VARIANTS if v[0] != 'pool']
# Variants whose output does NOT build with gfortran on the default template of the pinned tree (triage 2026-09-22):
# the kernel-side stack dummy is declared `REAL, TARGET, CONTIGUOUS, INTENT(INOUT) :: P_STACK(K_P_STACK_SIZE)` and
# CONTIGUOUS on an explicit-shape dummy violates F2008 C530 (gfortran: "has the CONTIGUOUS attribute but is not an array
# pointer or an assumed-shape or assumed-rank array").  Per the property they are outside its quantifier; run() probes them
# on the default template at every run and enumerates them like every other variant as soon as they build.
CONDITIONAL = [
    ('ftrptr', dict(), 'CONTIGUOUS attribute on the explicit-shape stack dummy: rejected by gfortran (F2008 C530)'),
    ('diridx', dict(), 'CONTIGUOUS attribute on the explicit-shape stack dummy: rejected by gfortran (F2008 C530)'),
]

# variants that are combined with every pair of switches in the thorough tier (one per family, default options); the
# other option sets are combined with every combination of <= 1 switch
PAIRED = [('hoist', dict()), ('hoist_alloc', dict()), ('rawstack', dict()), ('pool', dict(check_bounds=True, cray_ptr_loc_rhs=False)),
          ('ftrptr', dict()), ('diridx', dict())]

ASAN = ('-fsanitize=address',)
CRAY = ('-fcray-pointer',)
EXCLUSIVE = [{'nested_deep', 'nested_seq', 'inner_twice_shrink', 'inner_twice_grow', 'branch_skip'}]


def program_source(sw):
    """every size a temporary can depend on is defined before the driver is entered (the allocators evaluate the stack
    size at the top of the driver unless a `!$loki stack-insert` pragma says otherwise)"""
    geom = 'size_dt' in sw
    return (PROGRAM.replace('@USEGEOM@', '  use geom_mod, only: geom_type\n' if geom else '')
            .replace('@DECLGEOM@', '  type(geom_type) :: geom\n' if geom else '')
            .replace('@SETGEOM@', '    geom%nlev = nz + 1\n' if geom else '')
            .replace('@ARGGEOM@', 'geom, ' if geom else ''))


def case_flags(case):
    return xform.FLAGS + ASAN + (CRAY if case['xform'] == 'pool' else ())


def case_sources(sw):
    sw = set(sw)
    sources = []
    if 'size_dt' in sw:
        sources.append(['geom_mod.f90', DIMS])
    if 'nested_deep' in sw:
        sources.append(['inner3_mod.f90', INNER3])
    if sw & NEEDS_INNER1:
        sources.append(['inner1_mod.f90', inner1_source(sw)])
    if 'nested_seq' in sw:
        sources.append(['inner2_mod.f90', INNER2])
    if 'pass_tmp' in sw:
        sources.append(['fill_mod.f90', FILL])
    sources.append(['kernel_mod.f90', kernel_source(sw)])
    sources.append(['driver_mod.f90', driver_source(sw)])
    return sources


def _allowed(switches):
    sw = set(switches)
    return not any(len(sw & g) > 1 for g in EXCLUSIVE)


def make_cases(d, variants=None):
    """d=1 (quick): every combination of <= 1 switch x all variants; d=2 (thorough): additionally every combination of
    2 switches x one default-option variant per allocator family (PAIRED).
    Without `variants` (the C40 / C41 entry point) only the variants whose output is plain standard Fortran are produced
    (PLAIN: hoisting and raw stack); run() adds the Cray-pointer pool variants (built with -fcray-pointer) and the
    conditional ones."""
    if variants is None:
        variants = PLAIN
    cases = []
    for dev in deviations({k: [True] for k in SWITCHES}, d):
        switches = [k for k in SWITCHES if k in dev]
        if not _allowed(switches):
            continue
        sources = case_sources(switches)
        for fam, opts in variants:
            if len(switches) > 1 and (fam, opts) not in PAIRED:
                continue
            oid = ','.join(f'{k}={v}' for k, v in sorted(opts.items()))
            cases.append(dict(id=f'{"+".join(["base"] + switches)}|{fam}({oid})', sources=sources, driver=program_source(set(switches)),
                              extra=[['parkind1.f90', sccgen.PARKIND]], xform=fam, opts=opts, switches=switches))
    return cases


# ---------------------------------------------------------------------------------------------- apply
def transformations(case):
    from loki.transformations.temporaries import (
        HoistTemporaryArraysAnalysis, HoistVariablesTransformation, HoistTemporaryArraysTransformationAllocatable,
        FtrPtrStackTransformation, DirectIdxStackTransformation, TemporariesRawStackTransformation,
        TemporariesPoolAllocatorTransformation)
    horizontal, _, block_dim = sccgen.dimensions()
    fam, o = case['xform'], dict(case['opts'])
    if fam in ('hoist', 'hoist_alloc'):
        dim_vars = o.pop('dim_vars', None)
        analysis = HoistTemporaryArraysAnalysis(dim_vars=(dim_vars,) if dim_vars else None)
        cls = HoistVariablesTransformation if fam == 'hoist' else HoistTemporaryArraysTransformationAllocatable
        return [analysis, cls(**o)]
    if fam == 'ftrptr':
        return [FtrPtrStackTransformation(block_dim=block_dim, horizontal=horizontal, **o)]
    if fam == 'diridx':
        return [DirectIdxStackTransformation(block_dim=block_dim, horizontal=horizontal, **o)]
    if fam == 'rawstack':
        return [TemporariesRawStackTransformation(block_dim=block_dim, horizontal=horizontal, **o)]
    if fam == 'pool':
        return [TemporariesPoolAllocatorTransformation(block_dim=block_dim, horizontal=horizontal, **o)]
    raise ValueError(fam)


def apply(case, files):  # pylint: disable=unused-argument
    """(C40 / C41 entry point) -> {filename: transformed text}"""
    return sccgen.scheduler_apply(case, lambda: transformations(case), prefix='c38_', optional=OPTIONAL)


OPTIONAL = ('geom_mod.f90',)


def worker(case):
    os.environ['ASAN_OPTIONS'] = 'detect_leaks=0'
    r = sccgen.run_case(case, lambda: transformations(case), base=worker.base, flags=case_flags(case), prefix='c38_',
                        optional=OPTIONAL)
    r['id'] = case['id']
    return r


worker.base = None


def sigfn(results_by_id):
    """a failing simpler case explains a case that contains it (same variant, same verdict): first the default
    template, then each single-switch case - with the default option set of the family first"""
    first = {}
    for fam, opts in VARIANTS + [(f, o) for f, o, _ in CONDITIONAL]:
        first.setdefault(fam, ','.join(f'{k}={v}' for k, v in sorted(opts.items())))

    def sig(case, r):
        fam = case['xform']
        xf = case['id'].split('|', 1)[1]
        dflt = f'{fam}({first.get(fam, "")})'
        for label in ['base'] + list(case['switches']):
            stem = 'base' if label == 'base' else f'base+{label}'
            for cid, name in ((f'{stem}|{dflt}', fam), (f'{stem}|{xf}', xf)):
                single = results_by_id.get(cid)
                if single and single['verdict'] == r['verdict']:
                    return f'{r["verdict"]} block={label} xform={name}'
        return f'{r["verdict"]} blocks={"+".join(case["switches"]) or "base"} xform={fam if xf == dflt else xf}'
    return sig


def run(ctx):
    d = 1 if ctx.quick else 2
    worker.base = str(ctx.scratch)
    ctx.reset_pool()
    # conditional variants: included iff their output builds on the default template (see CONDITIONAL)
    excluded, now_building = [], []
    probe = make_cases(0, variants=[(f, o) for f, o, _ in CONDITIONAL])
    for (fam, opts, reason), c in zip(CONDITIONAL, probe):
        r = worker(c)
        ctx.require(r['verdict'] != 'HARNESS', f'default template does not build: {r["detail"]}')
        if r['verdict'] in ('xform-compile-error', 'loki-exception'):
            excluded.append(dict(variant=c['id'].split('|', 1)[1], reason=reason, verdict_on_default_template=r['verdict'],
                                 detail=' '.join(r['detail'].split())[:300]))
        else:
            now_building.append((fam, opts))
    if now_building:
        ctx.note(f'conditional variants that build on the default template and are enumerated: {now_building}')
    variants = VARIANTS + now_building          # PLAIN + pool (needs -fcray-pointer) + conditional variants that build
    cases = make_cases(d, variants=variants)
    results = xform.judge_cases(ctx, cases, worker)
    by_id = {r['id']: r for r in results}
    xform.summarise(ctx, cases, results, sigfn(by_id))
    per_variant = {}
    for c, r in zip(cases, results):
        pv = per_variant.setdefault(c['id'].split('|', 1)[1], dict(cases=0, changed_ok=0))
        pv['cases'] += 1
        pv['changed_ok'] += int(r['verdict'] == 'ok' and bool(r.get('changed')))
    transient = [f'{r["id"]}: {r["transient_first_attempt_error"]}' for r in results if r.get('transient_first_attempt_error')]
    if transient:
        ctx.note(f'{len(transient)} cases needed a second attempt of the Loki step (transient first failure): {transient[:3]}')
    ctx.cov.update(
        exhaustive=True, transient_retries=len(transient), per_variant=per_variant, excluded_variants=excluded,
        variants_needing_flags={f'{f}({",".join(f"{k}={v}" for k, v in sorted(o.items()))})': '-fcray-pointer (Cray pointers)'
                                for f, o in VARIANTS if f == 'pool'},
        bound=dict(max_switches=d, max_switches_with_nondefault_options=1, switches=len(SWITCHES),
                   variants=[f'{f}({o})' for f, o in variants], inputs=3),
        rule=f'all combinations of <= 1 of {len(SWITCHES)} feature switches on the driver/kernel template x every allocator variant '
             f'({len(variants)})' + (' + all combinations of 2 switches (nested-call shapes mutually exclusive) x one default-option '
                                     f'variant per family ({len([v for v in variants if v in PAIRED])})' if d > 1 else '')
             + '; each case through a real Scheduler; 3 (nlon,nz,nb,nk,start,end) inputs per run; non-trivial = the transformation '
             'changed the code and the program still prints the original output with no bounds / address-sanitizer event',
        samples=[dict(id=cases[0]['id']), dict(id=cases[-1]['id'], kernel=cases[-1]['sources'][-2][1])],
    )
    ctx.assumptions += ['gfortran -O0 -fcheck=bounds -fsanitize=address defines behaviour and storage validity',
                        'only standard-conforming single-column programs are generated',
                        'templates follow the conventions of the repository allocator tests (parkind1 stub with JPIM/JPRB/JWIM imported everywhere)']


def replay(case):
    os.environ['ASAN_OPTIONS'] = 'detect_leaks=0'
    r = sccgen.run_case(case, lambda: transformations(case), flags=case_flags(case), prefix='c38_', optional=OPTIONAL)
    if r['verdict'] == 'HARNESS':
        raise RuntimeError(r['detail'])
    return None if r['verdict'] in ('ok', 'unchanged-ok', 'refused') else f'{r["verdict"]}: {r["detail"]}'
