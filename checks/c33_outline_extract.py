"""C33  Region outlining and procedure extraction preserve behaviour.

ENUM (deviation-bounded) + gfortran differential, in the shape of c29_associates.py.

Template: a kernel `kern` (inside module `kmod` = "module level", or free-standing in its file = "file level")
with one default `!$loki outline` region and one default internal procedure, plus a menu of feature
blocks.  Region blocks (R_*) and internal-procedure blocks (I_*) are independent snippets working on
their own variables, so any combination is a well-defined program.  Module-structure switches (M_*)
exist at module level only.

Switches, one per branch / shortcut visible in the code under test
  loki/transformations/extract/outline.py  (outline_region / outline_pragma_regions)
    region_uses/defines -> in / inout / out partition   R_<role>_<kind>: role in {ro read-only, wa written then
        read after, rw read+written, wd written only and dead after, tm region-local temporary} x kind in
        {s scalar, v array (automatic, loop over n), e single element of an array, d derived-type component}
    `s.parents[0] if s.parent`                          R_dummy_component, R_local_nested, R_in_associate
    imported_symbols filter                             R_import_var_read, R_import_var_write, R_import_param,
                                                        R_call_function, R_kind_import
    `arg.type.parameter` filter                         R_local_param
    pragma in()/out()/inout() overrides                 R_override_agree, R_override_out, R_override_widen (scalars),
                                                        R_override_array
    name(...) / default name + counter                  base region is unnamed, R_unnamed_second, R_two_regions
    declarations from `v.type.shape`                    R_shape_var_unused, R_lower_bound, R_array_2d, R_allocatable
    `allocatable=None` on generated dummies             R_alloc_written_only, R_alloc_written_read_inside (INTENT(OUT) + ALLOCATABLE
                                                        would deallocate on entry; module level only)
    loop variable inside the region                     R_v_* (index dead after), R_loop_index_read_after
    region nested in other constructs                   R_in_loop, R_in_branch, R_cond_write, R_while_inside
    calls inside the region                             R_call_module_proc (enriched, intents known),
                                                        R_call_external (no interface, not enriched)
    integer scalar / intent(out) host dummy             R_integer_scalar
  loki/transformations/extract/internal.py  (extract_internal_procedure[s])
    vars_to_resolve (`v.scope is procedure`)            I_host_scalar_write, I_fixed_array, I_dummy_derived,
                                                        I_host_derived_local, I_host_intent_in, I_host_intent_out
    arr_shapes appended                                 I_host_dummy_array, I_host_local_array, I_lower_bound
    one dummy per *reference* found?                    I_array_two_subscripts (all other blocks use one subscript per array)
    parameters of the host                              I_local_param, I_import_param
    DeferredTypeSymbol / imports                        I_import_var_read, I_import_var_write
    dtype_imports_to_add / kind_imports_to_add          I_inner_local_derived, I_kind_import, I_host_type_in_module
    calls rewritten only in procedure.body              I_sibling_call, I_function, I_function_sibling
    kwargs appended to existing calls                   I_keyword_call, I_called_in_loop, I_host_loop_index
    `undefined` check / implicit typing                 I_implicit_typing (expected: explicit RuntimeError = refusal)
    name resolution                                     I_shadow_local, I_dummy_same_name
    type attributes kept on the new dummy               I_allocatable
  loki/transformations/extract/__init__.py  (ExtractTransformation.transform_module / transform_file)
    loops over *all* module routines                    M_sibling_without_contains
    routine.imports vs module imports                   M_import_at_module_level

Variants: outline_pragma_regions / extract_internal_procedures called directly (generated routines placed
like ExtractTransformation does) and ExtractTransformation(extract_internals, outline_regions) in
{(F,T),(T,F),(T,T)}, each at module level (apply to the Module) and at file level (apply to the Sourcefile
holding a free-standing kernel).  Region and module-structure blocks are combined under the outlining entry
points, internal-procedure and module-structure blocks under the extraction entry points; under (T,T) every
single block and every pair (region block, internal-procedure block) is generated.  The two direct entry points
are run on the base kernel and on every single block; pairs of blocks go through ExtractTransformation only (its
transform_module / transform_file do nothing but call the two functions per routine and append the result).

Oracle: (1) transformed sources build with gfortran -O0 -fcheck=bounds and print exactly the original
output on every input of the grid (3 sizes x values chosen so that both branches of every condition are
taken); (2) the statement's last sentence, checked directly on the generated text with a harness-owned
reader (no Loki): every variable that *by construction of the block* is written in the region and read
after it in the kernel must be an INTENT(OUT) or INTENT(INOUT) dummy of the generated routine (verdict
`not-passed-back`).  Weak reading: variables that are written but overwritten before the next read
(wd blocks) and module variables reached through a replicated USE are not demanded.
Explicit refusals are counted, not violations; the documented RuntimeError of extract_internal_procedure
for symbols without a declaration ("... are undefined in both ...") is such a refusal.
Never generated: pragma overrides that contradict the region's real data flow.
"""
import os
import re

from vf import xform, xfast
from vf.explore import deviations

PROPERTY = 'C33'
LEVEL = 'exploration'
META = dict(
    engine='enum',
    technique='deviation-bounded exhaustive template enumeration x all entry points / option sets / module- and '
              'file-level; gfortran differential run (original vs transformed) + direct INTENT(OUT/INOUT) check '
              'of written-then-read variables on the generated routine',
    level_text='all combinations of <= d feature blocks (region roles x kinds, nesting, calls, overrides, imports; '
               'internal procedures using host variables/parameters/types/imports/siblings) x {outline_pragma_regions, '
               'extract_internal_procedures, ExtractTransformation option product} x {module, file}: transformed code '
               'compiles, prints the original output on every input and passes written-then-read variables back; '
               'exhaustive for d',
    level_note='gfortran 12 -O0 -fcheck=bounds is the semantics; exact dyadic reals; which variables are written in a '
               'region and read afterwards is known by construction of each block (no interpreter, no Loki analysis)',
)

# ----------------------------------------------------------------------------------------------- fixed sources
TMOD = '''module tmod
  implicit none
  integer, parameter :: kp = 3
  integer, parameter :: rk = selected_real_kind(13)
  real :: gv = 1.5
  real :: gw = 0.25
  type :: st
    real :: x
    real :: v(4)
    integer :: m
  end type st
  type :: tt
    real :: x
    type(st) :: s
    real :: arr(0:2)
  end type tt
end module tmod
'''

HMOD = '''module hmod
  implicit none
contains
  subroutine addone(z)
    real, intent(inout) :: z(:)
    z = z + 1.0
  end subroutine addone
  subroutine addtwo(z)
    real, intent(inout) :: z
    z = z + 2.0
  end subroutine addtwo
  subroutine setval(z, y)
    real, intent(out) :: z
    real, intent(in) :: y
    z = y * 2.0
  end subroutine setval
  function twice(y) result(z)
    real, intent(in) :: y
    real :: z
    z = y * 2.0
  end function twice
end module hmod
'''

# external procedure without interface: compiled, never shown to Loki (calls to it are not enriched)
EXTSUB = '''subroutine extset(z, y)
  real, intent(out) :: z
  real, intent(in) :: y
  z = y + 0.75
end subroutine extset
'''

USES = '''    use tmod, only: st, tt, kp, rk, gv, gw
    use hmod, only: addone, addtwo, setval, twice
'''

DECLS = '''    integer, intent(in) :: n
    real, intent(inout) :: a(n), b(n), c0(0:n), q(4), w2(n, 2)
    type(tt), intent(inout) :: t
    real, intent(inout) :: r
    integer, intent(out) :: ko
    real :: s_ro, s_wa, s_rw, s_wd, s_tm
    real :: v_ro(n), v_wa(n), v_rw(n), v_wd(n), v_tm(n)
    real :: e_ro(4), e_wa(4), e_rw(4), e_wd(4), e_tm(4)
    type(st) :: d_ro, d_wa, d_rw, d_wd, d_tm
    integer :: i, j, k
    real :: x1, x2, x3, x4, x5, x6, x7, x8, x9, x10
    real :: hs, hw, hv(n)
    type(st) :: hd
    type(tt) :: tl
    integer, parameter :: lp = 2
    real(kind=rk) :: xk
    real, allocatable :: al(:), al2(:), al3(:)
    ko = 0
'''

PLAIN = '''  subroutine plain(z)
    real, intent(inout) :: z
    z = z + 1.0
  end subroutine plain
'''

ST2 = '''  type :: st2
    real :: y
  end type st2
'''

DRIVER = '''program drv
  use tmod
%(usek)s
  implicit none
  integer :: n, g, e, ko
  real, allocatable :: a(:), b(:), c0(:), w2(:, :)
  real :: q(4)
  type(tt) :: t
  real :: r
  do g = 1, 3
    n = 3 + g
    allocate(a(n), b(n), c0(0:n), w2(n, 2))
    do e = 1, n
      a(e) = real(e) * 0.5 - 1.0
      b(e) = real(mod(e * g, 4)) * 0.25 + 1.0
      w2(e, 1) = real(e) * 0.25
      w2(e, 2) = -real(e)
    end do
    do e = 0, n
      c0(e) = real(e) - 0.5
    end do
    q = (/ real(g) - 1.5, real(g) * 0.75, 0.5, -2.0 /)
    t%%x = 0.5 * real(g); t%%arr = (/ 1.0, 2.0, 3.0 /); t%%s%%x = 1.5; t%%s%%v = (/ 0.5, 1.5, -1.0, 2.0 /); t%%s%%m = g
    r = real(g) - 0.5
    ko = -7
    call kern(n, a, b, c0, q, w2, t, r, ko)
    write(*,'(A,I0)') 'G', g
    write(*,'(A,20(1X,ES14.7))') 'A', a
    write(*,'(A,20(1X,ES14.7))') 'B', b
    write(*,'(A,20(1X,ES14.7))') 'C', c0
    write(*,'(A,20(1X,ES14.7))') 'Q', q
    write(*,'(A,20(1X,ES14.7))') 'W', w2
    write(*,'(A,20(1X,ES14.7))') 'T', t%%x, t%%arr, t%%s%%x, t%%s%%v
    write(*,'(A,I0,1X,I0)') 'I', t%%s%%m, ko
    write(*,'(A,2(1X,ES14.7))') 'R', r, gw
    deallocate(a, b, c0, w2)
  end do
end program drv
'''

# ----------------------------------------------------------------------------------------------- region blocks
# a block is a list of segments: ('s', statements) | ('r', name suffix or None (unnamed), pragma extras, body, passback)
BASE_REGION = [('r', None, '', '    r = r * 2.0 + q(2)\n', [])]


def _rk_block(role, kind):
    nm = f'{kind}_{role}'
    if kind == 'v':
        loop = lambda body: f'    do i = 1, n\n      {body}\n    end do\n'
        return {
            'ro': [('s', f'    {nm}(:) = b(:) * 0.5\n'), ('r', '', '', loop(f'a(i) = a(i) + {nm}(i)'), [])],
            'wa': [('r', '', '', loop(f'{nm}(i) = b(i) + 1.0'), [nm]), ('s', f'    r = r + {nm}(1) + {nm}(n)\n')],
            'rw': [('s', f'    {nm}(:) = 0.5\n'), ('r', '', '', loop(f'{nm}(i) = {nm}(i) * 2.0 + b(i)'), [nm]),
                   ('s', f'    r = r + {nm}(n)\n')],
            'wd': [('r', '', '', loop(f'{nm}(i) = b(i)'), []), ('s', f'    {nm}(:) = 0.25\n    r = r + {nm}(2)\n')],
            'tm': [('r', '', '', loop(f'{nm}(i) = b(i) * 2.0') + loop(f'a(i) = a(i) + {nm}(n + 1 - i)'), [])],
        }[role]
    x = {'s': nm, 'e': f'{nm}(2)', 'd': f'{nm}%x'}[kind]
    init = {'s': '', 'e': f'    {nm} = 0.25\n', 'd': f'    {nm}%x = 0.25\n    {nm}%v = 0.5\n    {nm}%m = 2\n'}[kind]
    rest = {'s': '', 'e': f' + {nm}(3)', 'd': f' + {nm}%v(2) + real({nm}%m)'}[kind]
    return {
        'ro': [('s', init + f'    {x} = 1.5\n'), ('r', '', '', f'    r = r + {x} * 2.0\n', [])],
        'wa': [('s', init), ('r', '', '', f'    {x} = q(1) + 0.5\n', [nm]), ('s', f'    r = r + {x}{rest}\n')],
        'rw': [('s', init + f'    {x} = 0.5\n'), ('r', '', '', f'    {x} = {x} * 2.0 + q(2)\n', [nm]),
               ('s', f'    r = r + {x}{rest}\n')],
        'wd': [('s', init), ('r', '', '', f'    {x} = q(3)\n', []), ('s', f'    {x} = 0.25\n    r = r + {x}{rest}\n')],
        'tm': [('r', '', '', f'    {x} = q(1) * 2.0\n    r = r + {x}\n', [])],
    }[role]


RBLOCKS = {f'R_{role}_{kind}': _rk_block(role, kind) for kind in 'sved' for role in ('ro', 'wa', 'rw', 'wd', 'tm')}
RBLOCKS.update({
    'R_loop_index_read_after': [('r', '', '', '    do i = 1, n\n      a(i) = a(i) * 2.0\n    end do\n', ['i']),
                                ('s', '    r = r + real(i)\n')],
    'R_in_loop': [('s', '    do j = 1, 2\n'), ('r', '', '', '      r = r + real(j) * q(j)\n', []), ('s', '    end do\n')],
    'R_in_branch': [('s', '    if (q(1) > 0.0) then\n'), ('r', '', '', '      x1 = q(2) * 2.0\n', ['x1']),
                    ('s', '    else\n      x1 = 0.5\n    end if\n    r = r + x1\n')],
    'R_cond_write': [('s', '    x2 = 0.75\n'), ('r', '', '', '    if (q(2) > 1.0) then\n      x2 = 2.0\n    end if\n', ['x2']),
                     ('s', '    r = r + x2\n')],
    'R_while_inside': [('r', '', '', '    k = 0\n    do while (k < 3)\n      k = k + 1\n      r = r + 0.5\n    end do\n', [])],
    'R_call_module_proc': [('r', '', '', '    call addone(q)\n    call setval(x3, q(2))\n    call addtwo(r)\n', ['x3']),
                           ('s', '    r = r + x3\n')],
    'R_call_external': [('r', '', '', '    call extset(x4, q(1))\n', ['x4']), ('s', '    r = r + x4\n')],
    'R_call_function': [('r', '', '', '    r = r + twice(q(2))\n', [])],
    'R_override_agree': [('s', '    x9 = 0.75\n'), ('r', '', ' in(x9) inout(r)', '    r = r + x9\n', [])],
    'R_override_array': [('r', '', ' in(q)', '    r = r + q(3)\n', [])],
    'R_override_out': [('r', '', ' out(x5)', '    x5 = q(1)\n', ['x5']), ('s', '    r = r + x5\n')],
    'R_override_widen': [('s', '    x6 = 0.5\n    x10 = 1.25\n'), ('r', '', ' inout(x6,x10)', '    x6 = x10 + 1.0\n', ['x6']),
                         ('s', '    r = r + x6\n')],
    'R_two_regions': [('r', '_1', '', '    x7 = q(1) + 1.0\n', ['x7']), ('r', '_2', '', '    r = r + x7 * 2.0\n', [])],
    'R_unnamed_second': [('r', None, '', '    x8 = q(4)\n', ['x8']), ('s', '    r = r + x8\n')],
    'R_import_var_read': [('r', '', '', '    r = r + gv\n', [])],
    'R_import_var_write': [('r', '', '', '    gw = gw + q(1)\n', [])],
    'R_import_param': [('r', '', '', '    r = r + real(kp)\n', [])],
    'R_local_param': [('r', '', '', '    r = r + real(lp)\n', [])],
    'R_kind_import': [('s', '    xk = 0.5_rk\n'), ('r', '', '', '    xk = xk * 2.0_rk\n', ['xk']), ('s', '    r = r + real(xk)\n')],
    'R_shape_var_unused': [('r', '', '', '    a(2) = a(2) + 1.0\n', [])],
    'R_lower_bound': [('r', '', '', '    do i = 0, n\n      c0(i) = c0(i) + 1.0\n    end do\n', [])],
    'R_array_2d': [('r', '', '', '    do i = 1, n\n      w2(i, 2) = w2(i, 1) + 1.0\n    end do\n', [])],
    'R_dummy_component': [('r', '', '', '    t%x = t%x + 1.0\n    t%s%v(2) = t%s%v(1) * 2.0\n    t%arr(0) = 3.0\n', [])],
    'R_local_nested': [('s', '    tl%s%m = 2\n    tl%x = 0.5\n'), ('r', '', '', '    tl%s%m = tl%s%m + 1\n', ['tl']),
                       ('s', '    r = r + real(tl%s%m) + tl%x\n')],
    'R_allocatable': [('s', '    allocate(al(n))\n    al(:) = 0.5\n'),
                      ('r', '', '', '    do i = 1, n\n      al(i) = al(i) + b(i)\n    end do\n', ['al']),
                      ('s', '    r = r + al(n)\n    deallocate(al)\n')],
    'R_alloc_written_only': [('s', '    allocate(al2(n))\n    al2(:) = 0.25\n'),
                             ('r', '', '', '    do i = 1, n - 1\n      al2(i) = b(i) * 2.0\n    end do\n', ['al2']),
                             ('s', '    r = r + al2(1) + al2(n)\n    deallocate(al2)\n')],
    'R_alloc_written_read_inside': [('s', '    allocate(al3(n))\n    al3(:) = 0.25\n'),
                                    ('r', '', '', '    do i = 1, n\n      al3(i) = b(i) + 0.5\n    end do\n'
                                                  '    do i = 1, n\n      a(i) = a(i) + al3(i)\n    end do\n', ['al3']),
                                    ('s', '    r = r + al3(2)\n    deallocate(al3)\n')],
    'R_in_associate': [('s', '    associate (c => t%s%v)\n'), ('r', '', '', '      c(1) = c(2) + 1.0\n', []),
                       ('s', '    end associate\n')],
    'R_integer_scalar': [('r', '', '', '    k = n + 1\n    ko = n * 2\n', ['k']), ('s', '    ko = ko + k\n')],
})

# ----------------------------------------------------------------------------------------------- internal-procedure blocks
# host: statements in the host body; procs: internal procedures; flags: template-level requirements


def _sub(name, args, decl, body):
    return f'    subroutine {name}({args})\n{decl}{body}    end subroutine {name}\n'


ZIO = '      real, intent(inout) :: z\n'
ZIN = '      real, intent(in) :: z\n'
BASE_INTERNAL = dict(host='    hs = 0.5\n    call ibase(r)\n', procs=_sub('ibase', 'z', ZIO, '      z = z + hs\n'))

IBLOCKS = {
    'I_host_scalar_write': dict(host='    call iw(q(1))\n    r = r + hw\n', procs=_sub('iw', 'z', ZIN, '      hw = z * 2.0\n')),
    'I_host_dummy_array': dict(host='    call ia(1.5)\n', procs=_sub(
        'ia', 'z', ZIN + '      integer :: ii\n', '      do ii = 1, n\n        a(ii) = a(ii) + z\n      end do\n')),
    'I_host_local_array': dict(host='    hv(:) = 0.5\n    call ihv()\n    r = r + hv(2)\n',
                               procs=_sub('ihv', '', '', '      hv(2) = hv(2) + 2.0\n')),
    'I_fixed_array': dict(host='    call ifx(0.5)\n', procs=_sub('ifx', 'z', ZIN, '      q(4) = q(4) + z\n')),
    'I_array_two_subscripts': dict(host='    call i2s()\n', procs=_sub('i2s', '', '', '      q(3) = q(2) + 0.5\n')),
    'I_lower_bound': dict(host='    call ilb()\n', procs=_sub('ilb', '', '', '      c0(0) = c0(0) + 1.0\n')),
    'I_local_param': dict(host='    call ilp(r)\n', procs=_sub('ilp', 'z', ZIO, '      z = z + real(lp)\n')),
    'I_import_param': dict(host='    call ikp(r)\n', procs=_sub('ikp', 'z', ZIO, '      z = z + real(kp)\n')),
    'I_import_var_read': dict(host='    call igr(r)\n', procs=_sub('igr', 'z', ZIO, '      z = z + gv\n')),
    'I_import_var_write': dict(host='    call igw()\n', procs=_sub('igw', '', '', '      gw = gw + 1.0\n')),
    'I_host_derived_local': dict(host='    hd%x = 0.5\n    hd%m = 1\n    call ihd()\n    r = r + hd%x\n',
                                 procs=_sub('ihd', '', '', '      hd%x = hd%x + real(hd%m)\n')),
    'I_dummy_derived': dict(host='    call idd()\n', procs=_sub('idd', '', '', '      t%s%v(3) = t%x\n')),
    'I_inner_local_derived': dict(host='    call ild(r)\n', procs=_sub(
        'ild', 'z', ZIO + '      type(st) :: loc\n', '      loc%x = z\n      loc%m = 2\n      z = loc%x * real(loc%m)\n')),
    'I_sibling_call': dict(host='    call isib(r)\n', procs=_sub('isib', 'z', ZIO, '      call ibase(z)\n      z = z * 2.0\n')),
    'I_function': dict(host='    r = r + fin(q(1))\n',
                       procs='    function fin(z) result(y)\n' + ZIN + '      real :: y\n      y = z + hs\n    end function fin\n'),
    'I_function_sibling': dict(host='    call ifs(r)\n', procs=_sub('ifs', 'z', ZIO, '      z = z + fhs(0.5)\n') +
                               '    function fhs(z) result(y)\n' + ZIN + '      real :: y\n      y = z * hs\n    end function fhs\n'),
    'I_implicit_typing': dict(host='    call iimp(r)\n', procs=_sub('iimp', 'z', ZIO, '      zi = z * 2.0\n      z = zi\n'),
                              no_implicit_none=True),
    'I_shadow_local': dict(host='    call ish(r)\n    r = r + hs\n',
                           procs=_sub('ish', 'z', ZIO + '      real :: hs\n', '      hs = 4.0\n      z = z + hs\n')),
    'I_dummy_same_name': dict(host='    x1 = 0.5\n    hw = 3.0\n    call idn(x1)\n    r = r + x1 + hw\n',
                              procs=_sub('idn', 'hw', '      real, intent(inout) :: hw\n', '      hw = hw + 1.0\n')),
    'I_keyword_call': dict(host='    call ibase(z=q(3))\n', procs=''),
    'I_called_in_loop': dict(host='    do j = 1, 2\n      call ibase(q(j))\n    end do\n', procs=''),
    'I_host_loop_index': dict(host='    do i = 1, n\n      call iloop()\n    end do\n',
                              procs=_sub('iloop', '', '', '      a(i) = a(i) + real(i)\n')),
    'I_host_intent_in': dict(host='    call iin(r)\n', procs=_sub('iin', 'z', ZIO, '      z = z + real(n)\n')),
    'I_host_intent_out': dict(host='    call iout()\n', procs=_sub('iout', '', '', '      ko = n + 1\n')),
    'I_allocatable': dict(host='    allocate(al(n))\n    al(:) = 0.5\n    call ial()\n    r = r + al(1)\n    deallocate(al)\n',
                          procs=_sub('ial', '', '', '      al(1) = al(1) + 1.0\n')),
    'I_kind_import': dict(host='    xk = 0.5_rk\n    call ixk()\n    r = r + real(xk)\n',
                          procs=_sub('ixk', '', '', '      xk = xk + 1.0_rk\n')),
    'I_host_type_in_module': dict(host='    call it2(r)\n', procs=_sub(
        'it2', 'z', ZIO + '      type(st2) :: l2\n', '      l2%y = z\n      z = l2%y + 1.0\n'), module_only=True, st2=True),
}

MSWITCHES = ['M_sibling_without_contains', 'M_import_at_module_level']     # module level only
# allocatable written-only in the region: the dummy's attributes matter only with an explicit interface (at file level
# every allocatable already fails like R_allocatable: assumed-shape dummy of an external routine)
RMODULE_ONLY = {'R_alloc_written_only', 'R_alloc_written_read_inside'}


# ----------------------------------------------------------------------------------------------- assembly
def build_kernel(level, switches):
    """-> (kernel text, passback list [[region name or None, var], ...])"""
    sw = set(switches)
    passback = []
    body = ''
    rblocks = [('base', BASE_REGION)] + [(k, RBLOCKS[k]) for k in RBLOCKS if k in sw]
    for bname, segs in rblocks:
        for seg in segs:
            if seg[0] == 's':
                body += seg[1]
                continue
            _, suffix, extra, text, pb = seg
            rname = None if suffix is None else f'rg_{bname[2:].lower()}{suffix}'
            body += f'    !$loki outline{(" name(" + rname + ")") if rname else ""}{extra}\n{text}    !$loki end outline\n'
            passback += [[rname, v] for v in pb]
    iblocks = [BASE_INTERNAL] + [IBLOCKS[k] for k in IBLOCKS if k in sw]
    body += ''.join(b['host'] for b in iblocks)
    procs = ''.join(b['procs'] for b in iblocks)
    implicit_none = not any(b.get('no_implicit_none') for b in iblocks)
    st2 = any(b.get('st2') for b in iblocks)
    imp = '  implicit none\n' if implicit_none else ''
    if level == 'module':
        at_mod = 'M_import_at_module_level' in sw
        text = 'module kmod\n' + (USES.replace('    use', '  use') if at_mod else '') + imp + (ST2 if st2 else '') + 'contains\n'
        if 'M_sibling_without_contains' in sw:
            text += PLAIN
        text += '  subroutine kern(n, a, b, c0, q, w2, t, r, ko)\n' + ('' if at_mod else USES) + DECLS + body
        text += '  contains\n' + procs + '  end subroutine kern\nend module kmod\n'
    else:
        text = 'subroutine kern(n, a, b, c0, q, w2, t, r, ko)\n' + USES + imp.replace('  implicit', '    implicit') + DECLS + body
        text += '  contains\n' + procs + 'end subroutine kern\n'
    return text, passback


XFORMS = {
    'outline': [('outline', {}), ('trafo', dict(extract_internals=False, outline_regions=True))],
    'extract': [('extract', {}), ('trafo', dict(extract_internals=True, outline_regions=False))],
    'both': [('trafo', dict(extract_internals=True, outline_regions=True))],
}


def make_cases(d):
    menus = {
        'outline': list(RBLOCKS) + MSWITCHES,
        'extract': list(IBLOCKS) + MSWITCHES,
        'both': list(RBLOCKS) + list(IBLOCKS) + MSWITCHES,
    }
    cases = []
    for fam, variants in XFORMS.items():
        for level in ('module', 'file'):
            names = [k for k in menus[fam] if level == 'module' or not (k in MSWITCHES or k in RMODULE_ONLY or IBLOCKS.get(k, {}).get('module_only'))]
            for dev in deviations({k: [True] for k in names}, d):
                switches = [k for k in names if k in dev]
                if fam == 'both' and len(switches) > 1 and not (any(k[0] == 'R' for k in switches) and any(k[0] == 'I' for k in switches)):
                    continue        # same-kind pairs are covered by the outline / extract families
                text, passback = build_kernel(level, switches)
                if fam == 'extract':
                    passback = []
                driver = DRIVER % dict(usek='  use kmod, only: kern' if level == 'module' else '')
                for xf, opts in variants:
                    if xf != 'trafo' and len(switches) > 1:
                        continue    # direct calls are what ExtractTransformation does per routine: pairs only through the class
                    o = dict(opts, level=level)
                    oid = ','.join(f'{k}={v}' for k, v in sorted(o.items()))
                    cases.append(dict(
                        id=f'{"+".join(["base"] + switches)}|{xf}({oid})',
                        sources=[['tmod.f90', TMOD], ['hmod.f90', HMOD], ['kern.f90', text]],
                        extra=[['extset.f90', EXTSUB]], driver=driver, xform=xf, opts=o, switches=switches,
                        family=f'{fam}-{level}', passback=passback))
    return cases


def apply(case, files):
    from loki import Subroutine
    from loki.transformations.extract import outline_pragma_regions, extract_internal_procedures, ExtractTransformation
    xf, o = case['xform'], case['opts']
    sf = files['kern.f90']
    module = sf.modules[0] if o['level'] == 'module' else None
    try:
        if xf == 'trafo':
            ExtractTransformation(extract_internals=o['extract_internals'], outline_regions=o['outline_regions']).apply(module or sf)
            return
        fn = outline_pragma_regions if xf == 'outline' else extract_internal_procedures
        # the generated routines are placed exactly like ExtractTransformation does
        if module is not None:
            for routine in [r for r in module.subroutines if r.name.lower() == 'kern']:
                module.contains.append(fn(routine))
        else:
            for routine in [r for r in sf.routines if isinstance(r, Subroutine) and r.name.lower() == 'kern']:
                sf.ir.append(fn(routine))
    except Exception as ex:  # pylint: disable=broad-except
        # documented refusal of extract_internal_procedure (test_extract_internal_procedures_undefined_in_parent)
        if 'are undefined in both' in str(ex) or 'are undefined in both' in str(getattr(ex, '__cause__', '')):
            raise NotImplementedError(f'refused: {str(getattr(ex, "__cause__", None) or ex)[:160]}') from ex
        raise


# ----------------------------------------------------------------------------------------------- direct intent check
_SUBR = re.compile(r'^\s*(?:pure\s+|elemental\s+|recursive\s+)*subroutine\s+(\w+)\s*(?:\(([^)]*)\))?', re.I)
_END = re.compile(r'^\s*end\s+subroutine\b', re.I)
_DECL = re.compile(r'^(.*?)::(.*)$')


def generated_intents(text):
    """harness-owned reader of emitted Fortran: {routine name: {dummy name: intent or None}} (lower case)."""
    lines, cur = [], ''
    for ln in text.splitlines():
        s = ln.split('!')[0].rstrip() if not ln.lstrip().startswith('!') else ''
        if s.lstrip().startswith('&'):
            s = s.lstrip()[1:]
        if s.endswith('&'):
            cur += s[:-1]
            continue
        lines.append(cur + s)
        cur = ''
    out, name, args = {}, None, ()
    for ln in lines:
        m = _SUBR.match(ln)
        if m and not _END.match(ln):
            name = m.group(1).lower()
            args = tuple(a.strip().lower() for a in (m.group(2) or '').split(',') if a.strip())
            out[name] = {a: None for a in args}
            continue
        if _END.match(ln):
            name = None
            continue
        if name is None:
            continue
        d = _DECL.match(ln)
        if not d:
            continue
        im = re.search(r'intent\s*\(\s*(in\s*out|in|out)\s*\)', d.group(1), re.I)
        if not im:
            continue
        intent = im.group(1).lower().replace(' ', '')
        depth, tok, names = 0, '', []
        for ch in d.group(2) + ',':
            if ch == '(':
                depth += 1
            elif ch == ')':
                depth -= 1
            if ch == ',' and depth == 0:
                names.append(tok)
                tok = ''
            else:
                tok += ch
        for nm in names:
            nm = re.match(r'\s*(\w+)', nm)
            if nm and nm.group(1).lower() in out[name]:
                out[name][nm.group(1).lower()] = intent
    return out


def passback_problems(case, transformed):
    if not case.get('passback'):
        return []
    text = dict((f, t) for f, t in transformed)['kern.f90']
    intents = generated_intents(text)
    known = {'kern', 'plain'} | {n for n in intents if n.startswith('rg_')}
    orig_internal = set(generated_intents(dict((f, t) for f, t in case['sources'])['kern.f90'])) - {'kern', 'plain'}
    unnamed = [n for n in intents if n not in known and n not in orig_internal]
    problems = []
    for rname, var in case['passback']:
        cands = [rname] if rname else unnamed
        cands = [c for c in cands if c in intents]
        if not cands:
            problems.append(f'{var}: no generated routine {rname or "<default name>"} found')
        elif not any(intents[c].get(var.lower()) in ('out', 'inout') for c in cands):
            got = {c: intents[c].get(var.lower(), 'not a dummy') for c in cands}
            problems.append(f'{var} is written in the region and read after it but is not INTENT(OUT/INOUT) of {got}')
    return problems


def judge(case, base=None):
    r = xfast.run_case(case, apply, base=base, keep_files=True)
    tr = r.pop('transformed', None)
    if tr and r['verdict'] not in ('HARNESS', 'refused', 'loki-exception'):
        try:
            pb = passback_problems(case, tr)
        except Exception as ex:  # pylint: disable=broad-except
            pb = [f'reader failed: {type(ex).__name__}: {ex}']
        if pb:
            if r['verdict'] in ('ok', 'unchanged-ok'):
                r['verdict'] = 'not-passed-back'
                r['detail'] = '; '.join(pb)
            else:
                r['detail'] = (r['detail'] + ' || also: ' + '; '.join(pb))[:1500]
    return r


def worker(case):
    r = judge(case, base=worker.base)
    r['id'] = case['id']
    return r


worker.base = None

def sigfn(results_by_id):
    """A failing simpler case explains a case that contains it (same verdict): first the case without any switch
    (same variant), then each single-switch case.  Under ExtractTransformation(True, True) a region block is explained
    by the outlining-only variant and an internal-procedure block by the extraction-only variant of the same level, so
    one defect has one signature per level."""
    def sig(case, r):
        xf = case['id'].split('|', 1)[1]
        fam, level = case['family'].split('-')
        cands = [('base', case['family'], f'base|{xf}')]
        for sw in case['switches']:
            if fam == 'both' and sw[0] in 'RI':
                ofam = 'outline' if sw[0] == 'R' else 'extract'
                opts = dict(extract_internals=ofam == 'extract', outline_regions=ofam == 'outline', level=level)
                oid = ','.join(f'{k}={v}' for k, v in sorted(opts.items()))
                cands.append((sw, f'{ofam}-{level}', f'base+{sw}|trafo({oid})'))
            cands.append((sw, case['family'], f'base+{sw}|{xf}'))
        for label, family, cid in cands:
            single = results_by_id.get(cid)
            if single and single['verdict'] == r['verdict']:
                return f'{r["verdict"]} block={label} xform={family}'
        return f'{r["verdict"]} blocks={"+".join(case["switches"]) or "base"} xform={case["family"]}'
    return sig


# wall-clock budget after which no further chunk of pair cases is started (thorough tier); the run then reports the
# completed bound (max_blocks=1) and exhaustive=False instead of overrunning on a loaded machine
CAP_S = float(os.environ.get('VERIF_CAP_S', 780))


def run(ctx):
    d = 1 if ctx.quick else 2
    allcases = make_cases(d)
    worker.base = str(ctx.scratch)
    ctx.reset_pool()
    # phase 1: base kernel and single blocks; phase 2: pairs - but not for a variant whose base kernel already violates
    # the property (at file level every extraction is uncompilable): such pairs cannot show anything beyond that
    first = [c for c in allcases if len(c['switches']) <= 1]
    res1 = xform.judge_cases(ctx, first, worker)
    dead = {c['id'].split('|', 1)[1] for c, r in zip(first, res1)
            if not c['switches'] and r['verdict'] not in ('ok', 'unchanged-ok', 'refused')}
    pairs = [c for c in allcases if len(c['switches']) > 1]
    second = xfast.interleave([c for c in pairs if c['id'].split('|', 1)[1] not in dead], lambda c: c['id'].split('|', 1)[1])
    second, res2, complete = xfast.judge_until(ctx, second, worker, CAP_S) if second else ([], [], True)
    cases, results = first + second, res1 + res2
    by_id = {r['id']: r for r in results}
    xform.summarise(ctx, cases, results, sigfn(by_id))
    npb = sum(len(c['passback']) for c in cases)
    fams = sorted({c['family'] for c in cases})
    ctx.require(npb >= 20, f'vacuous: only {npb} written-then-read obligations were checked')
    npairs = len([c for c in pairs if c['id'].split('|', 1)[1] not in dead])
    if not complete:
        ctx.note(f'time cap {CAP_S}s hit: {len(second)} of {npairs} pair cases judged; bound completed: max_blocks=1')
    ctx.cov.update(
        exhaustive=complete, pairs_judged=len(second), pairs_total=npairs,
        bound=dict(max_blocks=d if complete else 1, region_blocks=len(RBLOCKS), internal_blocks=len(IBLOCKS), module_switches=len(MSWITCHES),
                   families=fams, variants={k: len(v) for k, v in XFORMS.items()}),
        passback_obligations=npb, variants_with_violating_base=sorted(dead), pairs_not_run_behind_violating_base=len(pairs) - len(second),
        rule=f'all combinations of <= {d} feature blocks ({len(RBLOCKS)} region, {len(IBLOCKS)} internal-procedure, '
             f'{len(MSWITCHES)} module-structure) added to the base kernel x entry points / ExtractTransformation options x '
             '{module, file} level (pairs are not run for a variant whose base kernel already violates the property); '
             '3 inputs per run; non-trivial = the transformation changed the code and the program still prints the original output',
        samples=[dict(id=cases[0]['id']), dict(id=cases[-1]['id'], text=cases[-1]['sources'][2][1])],
    )
    ctx.assumptions += ['gfortran -O0 -fcheck=bounds defines behaviour', 'only standard-conforming programs are generated',
                        'written-in-region / read-after facts are known by construction of each feature block']


def replay(case):
    r = judge(case)
    if r['verdict'] == 'HARNESS':
        raise RuntimeError(r['detail'])
    return None if r['verdict'] in ('ok', 'unchanged-ok', 'refused') else f'{r["verdict"]}: {r["detail"]}'
