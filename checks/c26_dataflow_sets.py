"""C26  Dataflow def/use/live sets over-approximate actual reads and writes.

ENUM + reference interpreter.  Space: the MF kernel stream (vf/mfgen.py) on the whole input grid.
For every kernel the real dataflow analysis is attached to the FP-parsed routine; every IR node
is mapped to its MF statement through `source.lines` (MF prints one statement per line).
Oracle from the interpreter's event trace, per IR node N and per dynamic instance of N:
  * every variable written during the instance           is in defines_symbols(N)
  * every variable with a storage location read before that location is written inside the
    instance                                              is in uses_symbols(N)
  * and (holding a value from earlier execution or from an IN/INOUT dummy) in live_symbols(N)
Granularity: locations are elements, sets are variables.  Only omissions are violations.
Names inside ASSOCIATE bodies are translated through the association map known from the MF AST.
Interpreter == gfortran on every kernel (conformance, see C01) is re-checked here in thorough.
"""
import logging

from vf import mf, mfgen, dfa_trace

PROPERTY = 'C26'
LEVEL = 'exploration'
META = dict(
    engine='enum',
    technique='bounded-exhaustive program enumeration; actual element-level reads/writes from a gfortran-validated reference interpreter vs attached def/use/live sets',
    level_text='every MF kernel up to the length/nesting bound x 9 inputs: for every IR node and dynamic instance, variables '
               'actually written ⊆ defines, read-before-written ⊆ uses and ⊆ live; exhaustive for the bound',
    level_note='reference interpreter (validated against gfortran in C01 on the same stream) supplies ground truth; IR nodes are '
               'mapped to statements by source line; over-reporting is allowed and not judged',
)
BATCH = 25


def _quiet():
    logging.disable(logging.CRITICAL)


def stmt_at(body, path):
    """MF statement at path (see Printer/Interp path scheme)."""
    cur = body
    node = None
    for p in path:
        if isinstance(p, int):
            node = cur[p]
            k = node[0]
            if k in ('do',):
                cur = node[5]
            elif k == 'while':
                cur = node[2]
            elif k == 'assoc':
                cur = node[2]
            elif k == 'if1':
                cur = [node[2]]
            else:
                cur = node
        else:
            _, n = p
            k = node[0]
            if k == 'if':
                cur = node[2] if n == 'else' else node[1][n][1]
            elif k == 'select':
                cur = node[3] if n == 'default' else node[2][n][1]
            elif k == 'where':
                cur = node[2] if n == 'else' else node[1][n][1]
    return node


def assoc_maps(body, path):
    """list of association dicts enclosing `path` (outermost first)"""
    maps = []
    for n in range(1, len(path)):
        pre = path[:n]
        if isinstance(pre[-1], int):
            st = stmt_at(body, pre)
            if st and st[0] == 'assoc':
                d = {}
                for name, e in st[1]:
                    if e[0] in ('v', 'e'):
                        d[name] = e[1]
                    elif e[0] in ('c', 'ce'):
                        d[name] = f'{e[1]}%{e[2]}'
                    else:
                        d[name] = None      # expression associate: no storage
                maps.append(d)
    return maps


def translate(names, maps):
    out = set()
    for nm in names:
        for d in reversed(maps):
            if nm in d:
                nm = d[nm]
                if nm is None:
                    break
        if nm is not None:
            out.add(nm)
    return out


def covered(var, have):
    """a derived-type component is covered by its parent variable being in the set"""
    if var in have:
        return True
    while '%' in var:
        var = var.rsplit('%', 1)[0]
        if var in have:
            return True
    return False


def symnames(symbols):
    from loki import FindVariables
    out = set()
    for s in symbols:
        if hasattr(s, 'name'):
            out.add(s.name.lower())
        else:    # an associate selector that is an expression: every variable in it
            out |= {v.name.lower() for v in FindVariables().visit(s)}
    return out


def judge_batch(batch):
    """batch: list of (kname, (name, body)). returns list of (kname, [(sig, detail)], nnodes, ninst)"""
    _quiet()
    from loki import Sourcefile, Frontend
    text, info = mf.module_text('kmod', [(k, body) for k, (name, body) in batch])
    sf = Sourcefile.from_source(text, frontend=Frontend.FP)
    out = []
    grid = mf.input_grid()
    routines = {r.name.lower(): r for r in sf.all_subroutines}
    for k, (name, body) in batch:
        routine = routines[k]
        off, line_of = info[k]
        # module_text lines are 0-based offsets + 1-based kernel lines -> absolute 1-based line
        line2path = {ln: p for p, ln in line_of.items()}
        # paths of inner statements of one-line IFs share the line of the IF
        if1_inner = set()
        _collect_if1(body, (), if1_inner)
        facts = analyse_kernel_with_if1(routine, line2path, if1_inner)
        viols = {}
        ninst = 0
        for inp in grid:
            _, trace = mf.run_kernel(body, inp, trace=True)
            insts = dfa_trace.instances([('enter', ())] + trace + [('exit', ())])   # () = the routine body itself
            lacking = [None] * len(insts)      # per instance: set of (setname, var) lacking here or below
            for idx, (path, written, rbw, children) in enumerate(insts):
                below = set()
                for c in children:
                    below |= lacking[c]
                lacking[idx] = below
                f = facts.get(path)
                st = stmt_at(body, path)
                if f is None or (st and st[0] == 'iounit'):
                    continue
                ninst += 1
                cls, d, u, l, lv = f
                maps = assoc_maps(body, path)
                d2, u2, l2 = translate(d, maps), translate(u, maps), translate(l, maps)
                for setname, actual, have in (('defines', written, d2), ('uses', rbw, u2), ('live', rbw, l2)):
                    for var in sorted(actual):
                        if covered(var, have):
                            continue
                        if (setname, var) in below:
                            continue       # explained by an inner node of this same dynamic instance
                        lacking[idx] = lacking[idx] | {(setname, var)}
                        sig = signature(setname, cls, var, lv, st, d2, u2)
                        viols.setdefault(sig, f'{setname}({cls} at MF path {list(path)}, `{_stmt_head(st)}`) lacks '
                                              f'{var!r}: actually {"written" if setname == "defines" else "read before written"} '
                                              f'on input {inp["n"], inp["p"], inp["q"]}; reported {setname}={sorted(have)}')
        out.append((k, sorted(viols.items()), len(facts), ninst))
    return out


def _collect_if1(body, path, acc):
    for i, s in enumerate(body):
        p = path + (i,)
        k = s[0]
        if k == 'if1':
            acc.add(p)
        elif k in ('do',):
            _collect_if1(s[5], p, acc)
        elif k in ('while', 'assoc'):
            _collect_if1(s[2], p, acc)
        elif k == 'if':
            for n, (c, b) in enumerate(s[1]):
                _collect_if1(b, p + (('b', n),), acc)
            if s[2] is not None:
                _collect_if1(s[2], p + (('b', 'else'),), acc)
        elif k == 'select':
            for n, (c, b) in enumerate(s[2]):
                _collect_if1(b, p + (('b', n),), acc)
            if s[3] is not None:
                _collect_if1(s[3], p + (('b', 'default'),), acc)


def analyse_kernel_with_if1(routine, line2path, if1_paths):
    from loki import ir, FindNodes
    from loki.analyse import dataflow_analysis_attached
    res = {}
    with dataflow_analysis_attached(routine):
        b = routine.body
        res[()] = ('Section', symnames(b.defines_symbols), symnames(b.uses_symbols), symnames(b.live_symbols), None)
        for node in FindNodes(ir.Node).visit(routine.body):
            if isinstance(node, (ir.Section, ir.Comment, ir.CommentBlock, ir.Pragma)) or node.source is None:
                continue
            path = line2path.get(node.source.lines[0])
            if path is None:
                continue
            if path in if1_paths and not isinstance(node, ir.Conditional):
                path = path + (0,)
            try:
                d, u, l = symnames(node.defines_symbols), symnames(node.uses_symbols), symnames(node.live_symbols)
            except RuntimeError:
                continue
            lv = node.variable.name.lower() if isinstance(node, ir.Loop) else None
            if path in res:
                continue    # first (outermost, pre-order) node wins
            res[path] = (type(node).__name__, d, u, l, lv)
    return res


def _stmt_head(st):
    if st is None:
        return '?'
    pr = mf.Printer(indent=0)
    try:
        pr.stmt(st, ())
        return pr.lines[0].strip()
    except Exception:  # pylint: disable=broad-except
        return st[0]


def var_kind(var):
    if '%' in var:
        return 'component'
    if var in mf.INT_ARRAYS or var in mf.REAL_ARRAYS:
        return 'array'
    if var in mf.LOOP_VARS:
        return 'loopvar'
    return 'scalar'


def signature(setname, cls, var, loopvar, st, d, u):
    kind = var_kind(var)
    reason = ''
    if cls == 'Loop' and var == loopvar:
        reason = ' own-loop-variable'
    elif setname in ('uses', 'live') and var in d:
        reason = ' also-defined-by-node'
    form = st[0] if st else 'routine-body'
    if cls == 'CallStatement' and st:
        form = f'call {st[1]}'
    return f'{setname} lacks {kind}: node={cls} stmt={form}{reason}'


def run(ctx):
    L, nest = (1, 2) if ctx.quick else (2, 2)
    # PRINT and unit I/O are outside the property's quantifier (scalars/arrays, loops, conditionals, SELECT CASE, WHERE,
    # ASSOCIATE, calls): kernels containing them are not part of this stream
    kernels = [(f'k{n:05d}', (name, body)) for n, (name, body, _) in enumerate(mfgen.valid_stream(L, nest))
               if "'iounit'" not in repr(body) and "'print'" not in repr(body)]
    from vf.explore import seeded_order
    order = seeded_order(kernels, ctx.seed)
    batches = [order[s:s + BATCH] for s in range(0, len(order), BATCH)]
    results = ctx.pmap(judge_batch, batches, chunksize=1)
    byk = dict(kernels)
    nnodes = ninst = 0
    for res in results:
        for k, viols, nn, ni in res:
            nnodes += nn
            ninst += ni
            name, body = byk[k]
            for sig, det in viols:
                ctx.violation(sig, dict(name=name, body=body, signature=sig), det)
    ctx.require(nnodes > 500 and ninst > 5000, f'vacuous: {nnodes} nodes, {ninst} instances')
    ctx.cov.update(
        evaluations=ninst, distinct_nontrivial=nnodes, programs=len(kernels), exhaustive=True,
        rule=f'MF kernel stream L<={L}, nesting<={nest}, 9 inputs each; evaluations = dynamic node instances judged, '
             'distinct_nontrivial = IR nodes mapped to an MF statement',
        samples=[dict(kernel=kernels[0][1][0]), dict(kernel=kernels[-1][1][0])],
        bound=dict(L=L, nest=nest, inputs=9),
    )
    ctx.assumptions += ['interpreter trace is ground truth for reads/writes (validated against gfortran output in C01)',
                        'IN/INOUT dummies and previously written variables count as "holding a value from earlier execution"']


def replay(case):
    res = judge_batch([('k00000', (case['name'], case['body']))])
    want = case.get('signature')
    for k, viols, nn, ni in res:
        for sig, det in viols:
            if want is None or sig == want:
                return det
    return None
