"""C08  Symbolic simplification preserves expression values, for every subset of simplification flags.

ENUM.  Space: the typed expression trees of vf.exprgen (integer / real / logical; n-ary sums/products,
quotients, powers, unary minus, comparisons, logical operators; plain and Parenthesised* nodes; leaves
2 variables + 2 literals per type incl. a negative IntLiteral) within an operator bound  x  flag subsets
(quick: none, each single flag, ALL; thorough: all 32)  x  the complete valuation grid.

Oracle: treeeval(simplify(t, flags), s) == treeeval(t, s) for every valuation s of the grid at which
*both* trees are defined (non-zero divisors, 32-bit range).  treeeval is exact: Python integers with
Fortran's truncating division and integer power for integer trees, exact rationals for real trees.
A tree is 'integer' when all its leaves are integers; a rewrite that is only valid over the reals but is
applied to an integer tree changes values and is a violation, as the statement says ("This includes
integer division, which truncates toward zero").  For real trees an algebraically valid rewrite gives
the identical rational (re-association rounding is *not* demanded); only where simplify itself computes
with non-dyadic literals in double precision (0.5/1.5) a relative slack of 2**-40 is granted.

Weaker readings taken: a valuation at which the original or the simplified tree is undefined is skipped;
simplify() raising an exception is counted and reported as a note, not as a violation (no value was
changed); a result containing nodes outside the harness alphabet cannot be judged and is counted.
"""
from vf import exprgen as G
from vf.explore import seeded_order

PROPERTY = 'C08'
LEVEL = 'exploration'
META = dict(
    engine='enum',
    technique='bounded-exhaustive typed expression-tree enumeration x simplification-flag subsets; exact evaluation of '
              'original and simplified tree on a complete valuation grid',
    level_text='every integer/real/logical expression tree within the operator bound (quick: <=1 operator with 2-3 child '
               'nodes, 2 operators binary; thorough: <=2 operators + 3 operators on a reduced alphabet) x flag subsets (quick 7, thorough all 32): simplify() '
               'preserves the value at every grid valuation where both trees are defined',
    level_note='exact reference evaluator vf.exprsem.treeeval (truncating integer division, exact rationals); no claim '
               'about floating-point rounding, nor beyond the operator bound, leaf alphabet and value pools',
)

FLAGS = ('Flatten', 'IntegerArithmetic', 'FloatingPointArithmetic', 'CollectCoefficients', 'LogicEvaluation')
TYPENAME = {'i': 'int', 'r': 'real', 'l': 'logical'}
POOLS = {'i': G.INT_POOL, 'r': G.REAL_POOL, 'l': G.LOG_POOL}
CHUNK = 300
_CFG = dict(G.DEFAULT_CFG)
_NAMES = G.CANON_NAMES


def _silence():
    import logging
    logging.disable(logging.CRITICAL)
    try:
        import loki.logging as ll
        ll.set_log_level('ERROR')
    except Exception:  # pylint: disable=broad-except
        pass


def flagset(mask):
    from loki.expression.symbolic import Simplification
    f = Simplification(0)
    for i, n in enumerate(FLAGS):
        if mask >> i & 1:
            f |= getattr(Simplification, n)
    return f


def flagnames(mask):
    return [n for i, n in enumerate(FLAGS) if mask >> i & 1]


def flag_masks(quick):
    if quick:
        return [0] + [1 << i for i in range(len(FLAGS))] + [(1 << len(FLAGS)) - 1]
    return list(range(1 << len(FLAGS)))


def tree_values(expr, spec, names):
    out = []
    for val in G.grid(G.variables(spec), POOLS):
        env = G.env_of(val, names)
        tv, _ = G.tree_value(expr, env)
        if isinstance(tv, str) and tv == G.NOPARSE:
            raise RuntimeError(f'reference tree evaluator cannot evaluate {G.show(spec)}')
        out.append((val, env, tv))
    return out


def run_simplify(expr, mask):
    """-> ('ok', result) | ('raised', 'ExcType: msg')"""
    from loki.expression.symbolic import simplify
    try:
        return 'ok', simplify(expr, enabled_simplifications=flagset(mask))
    except RecursionError as ex:
        return 'raised', f'RecursionError: {ex}'
    except Exception as ex:  # pylint: disable=broad-except
        return 'raised', f'{type(ex).__name__}: {ex}'


def compare(tvals, result):
    """-> None (values preserved) | 'unjudged' | (valuation, original value, simplified value)"""
    for val, env, tv in tvals:
        if isinstance(tv, str):
            continue
        rv, _ = G.tree_value(result, env)
        if isinstance(rv, str):
            if rv == G.NOPARSE:
                return 'unjudged'
            continue
        if not G.same_value(tv, rv) and not _close(tv, rv):
            return (val, tv, rv)
    return None


def _close(a, b):
    """Real values that are not dyadic rationals (1/3 ...) have no exact binary floating-point form:
    simplify's own literal arithmetic in double precision (0.5/1.5 -> 0.3333333333333333) is then off
    the exact rational by one rounding.  That is not a changed value in the sense of the statement;
    a genuinely different value is off by far more than 2**-40 relative."""
    from fractions import Fraction
    if isinstance(a, bool) or isinstance(b, bool):
        return False
    if not (isinstance(a, Fraction) or isinstance(b, Fraction)):
        return False
    a, b = Fraction(a), Fraction(b)
    return abs(a - b) <= Fraction(1, 2 ** 40) * max(abs(a), abs(b))


def result_text(result, names):
    try:
        return G.show(G.from_loki(result, names), names)
    except ValueError:
        return repr(result)


def check_tree(spec, masks, names):
    """-> dict(calls, changed, raised=[...], unjudged, viol=[(mask, detail, result_text)], nontrivial)"""
    expr = G.build(spec, names)
    tvals = tree_values(expr, spec, names)
    ndist = len({tv for _, _, tv in tvals if not isinstance(tv, str)})
    out = dict(calls=0, changed=0, raised=[], unjudged=0, viol=[], nontrivial=ndist >= 2, results=set())
    seen = {}
    okey = G.key(spec)
    for mask in masks:
        out['calls'] += 1
        st, res = run_simplify(expr, mask)
        if st == 'raised':
            out['raised'].append((mask, res))
            continue
        try:
            rspec = G.from_loki(res, names)
            rkey = G.key(rspec)
        except ValueError:
            rkey = ('repr', repr(res))
        if rkey == okey:
            continue
        out['changed'] += 1
        out['results'].add(hash(rkey))
        if rkey not in seen:
            seen[rkey] = compare(tvals, res)
        verdict = seen[rkey]
        if verdict == 'unjudged':
            out['unjudged'] += 1
        elif verdict is not None:
            val, tv, rv = verdict
            rt = result_text(res, names)
            out['viol'].append((mask, f'simplify[{"|".join(flagnames(mask)) or "none"}]({G.show(spec, names)}) = {rt}: '
                                      f'original value {tv}, simplified value {rv} at {G.env_of(val, names)}', rt))
    return out


# ------------------------------------------------------------------ signatures
_FAIL_MEMO = {}
_CORE_MEMO = {}


def fails(spec, mask):
    """True iff simplify with this flag set changes the value of this tree (canonical names)."""
    k = (G.key(spec), mask)
    if k not in _FAIL_MEMO:
        try:
            expr = G.build(spec, _NAMES)
            st, res = run_simplify(expr, mask)
            r = False
            if st == 'ok':
                v = compare(tree_values(expr, spec, _NAMES), res)
                r = v is not None and v != 'unjudged'
        except Exception:  # pylint: disable=broad-except
            r = False
        _FAIL_MEMO[k] = r
    return _FAIL_MEMO[k]


def minimal_flags(spec, mask):
    """Greedy: drop flags (in declaration order) while the tree still fails."""
    changed = True
    while changed:
        changed = False
        for i in range(len(FLAGS)):
            if mask >> i & 1 and fails(spec, mask & ~(1 << i)):
                mask &= ~(1 << i)
                changed = True
                break
    return mask


def signature(spec, mask):
    """(minimal flag subset, minimal failing core, its simplified form)."""
    mask = minimal_flags(spec, mask)
    memo = _CORE_MEMO.setdefault(mask, {})
    core = G.shrink_core(spec, lambda s: 'value' if fails(s, mask) else None, memo, _CFG)
    mask2 = minimal_flags(core, mask)
    if mask2 != mask:
        mask = mask2
        memo = _CORE_MEMO.setdefault(mask, {})
        core = G.shrink_core(core, lambda s: 'value' if fails(s, mask) else None, memo, _CFG)
    st, res = run_simplify(G.build(core, _NAMES), mask)
    rt = result_text(res, _NAMES) if st == 'ok' else res
    return (f'simplify[{"|".join(flagnames(mask)) or "none"}] {TYPENAME[G.typeof(core)]} {G.show(core)} -> {rt}',
            core, mask)


def work(arg):
    _silence()
    specs, masks, names, name_seed = arg
    res = dict(n=0, calls=0, changed=0, unjudged=0, nontrivial=0, viol=[], raised=0, raised_samples={},
               results=set())
    for spec in specs:
        r = check_tree(spec, masks, names)
        res['n'] += 1
        res['calls'] += r['calls']
        res['changed'] += r['changed']
        res['unjudged'] += r['unjudged']
        res['results'] |= {hash((G.key(spec), h)) for h in r['results']}
        if r['nontrivial'] and r['changed']:
            res['nontrivial'] += 1
        for mask, msg in r['raised']:
            res['raised'] += 1
            k = msg.split(':')[0] + ':' + msg.split(':', 1)[1][:60]
            if k not in res['raised_samples'] and len(res['raised_samples']) < 5:
                res['raised_samples'][k] = f'simplify[{"|".join(flagnames(mask)) or "none"}]({G.show(spec, names)}): {msg}'
        done = set()
        for mask, detail, _rt in r['viol']:
            sig, _core, _m = signature(spec, mask)
            if sig in done:
                continue          # same root cause via another flag superset of the same tree
            done.add(sig)
            res['viol'].append((sig, dict(tree=spec, flags=flagnames(mask), names_seed=name_seed), detail))
    return res


def space(ctx):
    items = []
    full = G.Enumerator(_CFG)
    if ctx.quick:
        for n in (0, 1):
            for T in 'irl':
                items += full.exactly(T, n)
        binary = G.Enumerator(dict(_CFG, arities=(2,)))
        for T in 'irl':
            items += binary.exactly(T, 2)
        red3 = G.Enumerator(dict(_CFG, forms=('plain',), arities=(2,), int_lits=(-3,), real_lits=('0.5',),
                                 log_lits=(True,)))
        nneg = 0
        for T in 'ir':
            for t in red3.exactly(T, 3):
                if G.count_heads(t, ('neg',)):     # subtraction / sign forms: a - (b + c), (-a)*(-b), ...
                    items.append(t)
                    nneg += 1
        bound = dict(max_operator_nodes=2, two_operator_trees='binary nodes only', flag_subsets=7,
                     three_operator_trees_with_unary_minus=nneg,
                     three_operator_alphabet='integer and real trees, 2 variables + 1 literal (int -3, real 0.5), plain '
                                             'binary nodes, >= 1 unary minus')
    else:
        for n in (0, 1):
            for T in 'irl':
                items += full.exactly(T, n)
        red = dict(int_lits=(-3,), real_lits=('0.5',), log_lits=(True,))
        binary = G.Enumerator(dict(_CFG, arities=(2,)))
        redE = G.Enumerator(dict(_CFG, **red))
        seen = set()
        n2 = 0
        for T in 'irl':
            for t in binary.exactly(T, 2) + redE.exactly(T, 2):
                k = G.key(t)
                if k not in seen:
                    seen.add(k)
                    items.append(t)
                    n2 += 1
        red3 = G.Enumerator(dict(_CFG, forms=('plain',), arities=(2,), **red))
        n3 = 0
        for T in 'ir':
            ts = red3.exactly(T, 3)
            n3 += len(ts)
            items += ts
        bound = dict(max_operator_nodes=2, flag_subsets=32, two_operator_trees=n2,
                     two_operator_alphabet='binary nodes on the full alphabet + 2-3 child nodes on 2 variables + 1 literal '
                                           'per type (int -3, real 0.5, .true.)',
                     three_operator_trees=n3,
                     three_operator_alphabet='integer and real trees, 2 variables + 1 literal, plain binary nodes + unary minus')
    # both tiers: flattened signed products Product((-1, x, y[, z])) and powers of perfect-square literals with
    # positive non-integral literal exponents k/2 (4.0**0.5, 9.0**1.5, 0.25**2.5, 4**0.5: exact results)
    mp = [t for T in 'ir' for t in G.minus_products(T, _CFG)]
    sq = G.sqrt_powers(_CFG)
    items += mp + sq
    bound.update(flattened_minus_products=len(mp), half_integral_powers_of_perfect_squares=len(sq))
    bound.update(leaves='2 variables + 2 literals per type (int 2, -3; real 0.5, 2.0; logical both)',
                 forms='plain + Parenthesised*', flags=list(FLAGS))
    return items, bound


def run(ctx):
    _silence()
    names = G.names_for_seed(ctx.seed)
    specs, bound = space(ctx)
    n = len(specs)
    specs = seeded_order(specs, ctx.seed)
    masks = flag_masks(ctx.quick)
    chunks = [(specs[i:i + CHUNK], masks, names, ctx.seed) for i in range(0, n, CHUNK)]
    ctx.reset_pool()
    results = ctx.pmap(work, chunks, chunksize=1)
    tot = dict(n=0, calls=0, changed=0, unjudged=0, nontrivial=0, raised=0)
    distinct = set()
    raised_samples = {}
    for r in results:
        for k in tot:
            tot[k] += r[k]
        distinct |= r['results']
        for k, v in r['raised_samples'].items():
            raised_samples.setdefault(k, v)
        for sig, case, det in r['viol']:
            ctx.violation(sig, case, det)
    ctx.require(tot['n'] == n, 'lost work items')
    ctx.require(tot['changed'] > 0.2 * n, f'vacuous: simplify changed only {tot["changed"]} of {tot["calls"]} (tree, flags) cases')
    ctx.require(tot['unjudged'] < 0.01 * max(1, tot['changed']),
                f'{tot["unjudged"]} simplified trees outside the reference evaluator alphabet')
    if tot['raised']:
        ctx.note(f'simplify() raised on {tot["raised"]} (tree, flags) cases (counted, not a violation of this property): '
                 + ' || '.join(list(raised_samples.values())[:4]))
    ctx.cov.update(
        evaluations=tot['calls'], distinct_nontrivial=len(distinct), exhaustive=True,
        rule='every tree of the grammar within the operator bound (one representative per variable renaming) x every flag '
             'subset of the tier, original and simplified tree evaluated on the complete grid '
             f'(int {list(G.INT_POOL)}, real {[str(v) for v in G.REAL_POOL]}, logical both); distinct non-trivial = distinct '
             '(tree, simplified tree) pairs where simplify changed the tree',
        trees=n, flag_subsets=len(masks), simplify_changed_tree=tot['changed'], trees_changed_and_multivalued=tot['nontrivial'],
        simplify_raised=tot['raised'], results_unjudged=tot['unjudged'],
        samples=[dict(tree=specs[0], flags=flagnames(masks[-1])), dict(tree=specs[n // 2], flags=flagnames(masks[1])),
                 dict(tree=specs[-1], flags=flagnames(masks[-1]))],
        bound=bound,
    )
    ctx.assumptions += [
        'vf.exprsem.treeeval gives the Fortran value of a tree: exact integers with truncating division and integer '
        'power when all leaves are integers, exact rationals for real trees',
        'simplification does not depend on identifier spelling beyond the three name pools selected by VERIF_SEED',
    ]


def replay(case):
    _silence()
    names = G.names_for_seed(case.get('names_seed', 0))
    mask = sum(1 << FLAGS.index(f) for f in case['flags'])
    r = check_tree(case['tree'], [mask], names)
    if r['viol']:
        return r['viol'][0][1]
    return None
