#!/venv/bin/python
"""Developer tool: triage C41 signatures by reference to the behavioural findings of the same stream.
A C41 signature (ill-formed output of transformation stream cNN, culprit block B) is adopted as an open
C41 finding only if known_findings/CNN.json has an OPEN entry for the same block whose verdict is a compile
error / exception / run error (the helper that built CNN triaged exactly that defect as genuine).
Everything else is printed as UNMATCHED and must be triaged by hand."""
import json, re, sys
from pathlib import Path
ROOT = Path(__file__).resolve().parent.parent
out, unmatched = [], []
kf_cache = {}
def kf(pid):
    if pid not in kf_cache:
        f = ROOT / 'known_findings' / f'{pid}.json'
        kf_cache[pid] = [e for e in json.loads(f.read_text())] if f.exists() else []
    return kf_cache[pid]
for rp in sorted((ROOT / 'replays' / 'C41').glob('*.json')):
    d = json.loads(rp.read_text())
    sig, case = d['signature'], d['case']
    pre = case['stream']; pid = pre.upper()
    m = re.search(r'block=(\S+)', sig) or re.search(r'blocks=(\S+)', sig)
    blocks = m.group(1).split('+') if m else []
    hit = None
    for e in kf(pid):
        if e.get('status') != 'open':
            continue
        es = e['signature']
        if not re.search(r'compile-error|loki-exception|run-error|HarnessProblem|reparse|exception', es):
            continue
        eb = re.search(r'blocks?=(\S+)', es)
        ebl = set(re.split(r'[+,]', eb.group(1))) if eb else set()
        if any(b in ebl or (b.split('=')[0] in {x.split('=')[0] for x in ebl} and b in es) for b in blocks) or \
           ('<default>' in blocks and ('base' in es or '<base>' in es)):
            hit = e; break
    if hit:
        out.append(dict(property='C41', status='open', signature=sig,
                        what=f're-manifestation of the open {pid} finding [{hit["signature"][:140]}]: the transformed code is '
                             f'ill-formed ({d["detail"].splitlines()[0][:200]})', example=case['case'].get('id', '')))
    else:
        unmatched.append((sig, d['detail'].splitlines()[0][:160]))
print(f'matched {len(out)}  unmatched {len(unmatched)}')
for s, det in unmatched[:80]:
    print('UNMATCHED', s[:150], '|', det)
if '--write' in sys.argv:
    (ROOT / 'known_findings' / 'C41.json').write_text(json.dumps(out, indent=1) + '\n')
    print('written')
