"""C39  Parametrisation preserves behaviour for matching inputs; the generated guard trips for every other input.

ENUM (deviation-bounded) + gfortran differential, in the shape of c29_associates.py / c34_signatures.py.

System under test: loki/transformations/parametrise.py :: ParametriseTransformation(dic2p, replace_by_value +-,
abort_callback, entry_points) driven by a *real* Scheduler (SchedulerConfig as in loki/transformations/tests/
test_parametrise.py: default role kernel / expand / strict; `kern` [and `kern2`] role driver) over the call tree

    PROGRAM drv (harness-owned, never seen by Loki)  ->  kern(n, m, kf, a, r)  ->  lev1(...)  [->  lev2(...)]

n, m are integer sizes (extents of a(n, m), loop bounds), kf is an integer flag.  The PROGRAM reads (n, m, kf) from
stdin, allocates and fills `a`, calls kern and prints every output with explicit formats; it is run once per input
of the complete grid  n in {2,3} x m in {3,4} x kf in {-1,1}.  A tripped guard ends the process, so by default each input
needs its own process; to keep process counts affordable the harness links a tiny C shim (STOPWRAP_C) that overrides
libgfortran's STOP / ERROR STOP entry points: the stop code and message are printed as a `#STOP` line and control
longjmps back to the harness loop, which goes on with the next input.  "Guard tripped" = a STOP/ERROR STOP with
non-zero code was executed and the guard's message was printed.  The plain one-process-per-input mode is kept
(intercept=False) and cross-checked against the shim on the base tree in every run.

Space  = every combination of <= d feature switches (d=1 quick, d=2 thorough)
         x transformation variants (VARIANTS below)
         x dic2p: every subset of one or two of {n, m, kf} x every value of the input pool of each chosen argument (18),
         graded: base tree: all variants x all 18 (both tiers); single-switch trees: 6 dic2p (each subset once) x 3
         variants (quick) / all 6 variants (thorough); two-switch trees (thorough): param x {n,kf}, param x {m},
         param-rbv x {n,m}.
Oracle = (1) the transformed sources build with gfortran -O0 -fcheck=bounds together with the unchanged PROGRAM;
         (2) for every input in which the parametrised arguments have the fixed values: exit status 0 and exactly the
             output of the original program;
         (3) for every other input: the guard trips - the process ends with a non-zero exit status AND the guard's
             message ("... received another value") is on stdout/stderr (a bounds-check crash or a silent normal
             run is `guard-missed`).
         All three abort mechanisms used here (default PRINT + STOP 1, `error stop "msg"` callback, `call
         stop_execution(msg)` callback) deliver both a message and a non-zero status, so (3) is exactly "the generated
         guard triggers".  A warn-only callback is not generated (behaviour after the warning is undefined).
Explicit refusals (NotImplementedError / "not supported") are counted, never violations.

Feature switches (one per branch / shortcut visible in transform_subroutine and in inline_constant_parameters, which
replace_by_value calls with external_only=False, plus the uses the statement names):
  uses of a parametrised argument
    base                 dummy array extent a(n, m), loop bounds, flag in IF           (all three levels)
    arith                integer arithmetic incl. division / mod / subtraction of the flag
    local_extent         automatic local arrays t(n), w(n, m)
    index_use            a(n, 1), a(1, m)
    intrinsic_arg        max(n, m), size/ubound of the dummy array
    select_case          SELECT CASE (kf)
    assumed_shape        callees take a(:, :) and use n, m as loop bounds only
  "passes this information down the calltree" (call.arguments / arg_iter / successor_map / trafo_data)
    rename_down          lev1 dummies are nn, mm, kflag                              (passed down under another name)
    rename_lev2          lev2 dummies are nl, ml, kl                                 (3-level only)
    swapped_names        extra callee swp(m, n, ..) called as swp(n, m, ..)          (names cross over)
    callee_n_only        extra callee side(n, c, r): only n goes there               (only in one of two callees)
    callee_kf_only       extra callee flagr(kf, r): only kf goes there
    callee_only_param_decl   extra callee tick(kf) whose only declaration is the parametrised dummy
    call_twice           lev1 called twice with the same actuals                     (trafo_data reset per call)
    second_call_other_actual   second call passes a local copy k2 instead of kf      (trafo_data reset: last call wins)
    same_arg_twice       sq(n, n, b, r): one variable bound to two dummies           (call.arguments.index: first only)
    keyword_args         call lev1(n=n, ...)                                         (only positional arguments are looked at)
    expr_actual          side(n - 1, a(1:n-1, 2), r)                                 (`var2p in call.arguments` is false)
    function_callee      r = r + fsum(n, a(:, 1))                                    (InlineCall, not a CallStatement)
    member_host          lev1 CONTAINS inner() using n by host association
    separate_modules     lev1 / lev2 live in their own modules / files
    two_drivers          second driver kern2 calling lev1 as well
    two_level            2-level tree kern -> lev1 (default is the 3-level tree)
  declarations (decl_map / parameter_declarations inserted before the first remaining declaration)
    shared_decl          integer, intent(in) :: n, m, kf
    dimension_attr       real, dimension(n, m), intent(inout) :: a
    no_intent            integer :: n
    upper_case           N, M, KF in the source of kern and lev1, lower-case keys in dic2p
    kind_import          integer(kind=ik), ik imported from module kmod
    kind_local_param     integer(kind=ik), ik a local parameter declared before the dummies
  replace_by_value touches every local parameter
    other_param          unrelated scalar parameters (integer and real) in lev1
    param_array          unrelated parameter array in lev1

Variants:  param (defaults), param-rbv (replace_by_value), param-errstop (abort_callback -> `error stop`),
           param-callstop (abort_callback -> CALL stop_execution(msg), replace_by_value), param-entry
           (entry_points=('lev1',): the guard sits in lev1, the role-driver routine stays untouched), param-entry-rbv.
           dic2p is always spelled with the (lower-cased) dummy names of the entry point, as the documentation demands.
"""
import hashlib
import itertools
import json
import os
import re
import shutil
import tempfile

from vf import gf, xform
from vf.explore import deviations

PROPERTY = 'C39'
LEVEL = 'exploration'
META = dict(
    engine='enum',
    technique='deviation-bounded exhaustive template enumeration x all option variants x all dic2p (subsets <= 2 x value pool), '
              'real Scheduler; gfortran differential run per input (original vs parametrised call tree)',
    level_text='all combinations of <= d feature switches of a 2-/3-level call tree x {defaults, replace_by_value, two '
               'abort callbacks, non-driver entry point +- replace_by_value} x every dic2p over <= 2 of {n, m, kf} and every '
               'pool value: parametrised tree compiles, prints the original output for every matching input of the '
               'complete 2x2x2 input grid and trips its guard (message + non-zero status) for every other input; exhaustive for d',
    level_note='gfortran 12 -O0 -fcheck=bounds is the semantics; exact dyadic reals so no tolerance; original program must '
               'build and run on every input (else HARNESS-ERROR); Scheduler discovery/enrichment is part of the system under test',
)

POOL = dict(n=(2, 3), m=(3, 4), kf=(-1, 1))
ARGS = ('n', 'm', 'kf')
INPUTS = [list(v) for v in itertools.product(*(POOL[a] for a in ARGS))]
GUARD_TEXT = 'received another value'

SWITCHES = [
    'arith', 'local_extent', 'index_use', 'intrinsic_arg', 'select_case', 'assumed_shape',
    'rename_down', 'rename_lev2', 'swapped_names', 'callee_n_only', 'callee_kf_only', 'callee_only_param_decl',
    'call_twice', 'second_call_other_actual', 'same_arg_twice', 'keyword_args', 'expr_actual', 'function_callee',
    'member_host', 'separate_modules', 'two_drivers', 'two_level',
    'shared_decl', 'dimension_attr', 'no_intent', 'upper_case', 'kind_import', 'kind_local_param',
    'other_param', 'param_array',
]
INCOMPATIBLE = [{'two_level', 'rename_lev2'}, {'kind_import', 'kind_local_param'}]

VARIANTS = [
    ('param', dict(replace_by_value=False, abort=None, entry=None)),
    ('param-rbv', dict(replace_by_value=True, abort=None, entry=None)),
    ('param-errstop', dict(replace_by_value=False, abort='error_stop', entry=None)),
    ('param-callstop', dict(replace_by_value=True, abort='call_stop', entry=None)),
    ('param-entry', dict(replace_by_value=False, abort=None, entry='lev1')),
    ('param-entry-rbv', dict(replace_by_value=True, abort=None, entry='lev1')),
]
# The product is graded (stated in the evidence): the base tree gets every variant x all 18 dic2p in both tiers;
# single-switch trees: the 6 dic2p of small_dic2ps() x D1_QUICK_VARIANTS (quick) / every variant (thorough);
# two-switch trees (thorough only): the three (variant, dic2p) combinations of D2_PLAN.
D1_QUICK_VARIANTS = ('param', 'param-rbv', 'param-entry')

SCHED_CONFIG = {
    'default': {'mode': 'idem', 'role': 'kernel', 'expand': True, 'strict': True},
    'routines': {'kern': {'role': 'driver', 'expand': True}, 'kern2': {'role': 'driver', 'expand': True}},
}


# ------------------------------------------------------------------------------------------------ program generator
def names_of(sw):
    """dummy names of (n, m, kf) per routine"""
    nm = {r: dict(n='n', m='m', kf='kf') for r in ('kern', 'kern2', 'lev1', 'lev2')}
    if 'rename_down' in sw:
        nm['lev1'] = dict(n='nn', m='mm', kf='kflag')
    if 'rename_lev2' in sw:
        nm['lev2'] = dict(n='nl', m='ml', kf='kl')
    if 'upper_case' in sw:
        for r in ('kern', 'kern2', 'lev1'):
            nm[r] = {k: v.upper() for k, v in nm[r].items()}
    return nm


def int_decls(sw, q, use_ik=True):
    """declaration lines of the three integer dummies (+ the kind parameter line before them)"""
    typ = 'integer(kind=ik)' if ({'kind_import', 'kind_local_param'} & set(sw)) and use_ik else 'integer'
    attr = '' if 'no_intent' in sw else ', intent(in)'
    lines = []
    if 'kind_local_param' in sw and use_ik:
        lines.append('integer, parameter :: ik = selected_int_kind(9)')
    if 'shared_decl' in sw:
        lines.append(f'{typ}{attr} :: {q["n"]}, {q["m"]}, {q["kf"]}')
    else:
        lines += [f'{typ}{attr} :: {q[k]}' for k in ARGS]
    return lines


def a_decl(sw, q, assumed=False):
    if assumed:
        return 'real, intent(inout) :: a(:, :)'
    if 'dimension_attr' in sw:
        return f'real, dimension({q["n"]}, {q["m"]}), intent(inout) :: a'
    return f'real, intent(inout) :: a({q["n"]}, {q["m"]})'


def uses(sw, extra=()):
    lines = []
    if 'kind_import' in sw:
        lines.append('use kmod, only: ik')
    lines += list(extra)
    return lines


def routine(name, args, use, decls, body, contains=()):
    out = [f'subroutine {name}({", ".join(args)})']
    out += [f'  {ln}' for ln in use]
    out += [f'  {ln}' for ln in decls]
    out += [f'  {ln}' for ln in body]
    if contains:
        out.append('contains')
        out += [f'  {ln}' for ln in contains]
    out.append(f'end subroutine {name}')
    return out


def call_lev1(sw, q, q1, kfname=None):
    kf = kfname or q['kf']
    if 'keyword_args' in sw:
        return f'call lev1({q1["n"]}={q["n"]}, {q1["m"]}={q["m"]}, {q1["kf"]}={kf}, a=a, r=r)'
    return f'call lev1({q["n"]}, {q["m"]}, {kf}, a, r)'


def gen_kern(sw, nm, name='kern'):
    q, q1 = nm[name], nm['lev1']
    n, m, kf = q['n'], q['m'], q['kf']
    use = uses(sw, ['use lmod, only: lev1'] if 'separate_modules' in sw else [])
    decls = int_decls(sw, q) + [a_decl(sw, q), 'real, intent(inout) :: r', 'integer :: i, j']
    body = [f'do j = 1, {m}', f'  do i = 1, {n}', '    a(i, j) = a(i, j) + 0.5', '  end do', 'end do',
            f'if ({kf} == 1) then', '  r = r + 2.0', 'end if']
    if name == 'kern2':
        body += [call_lev1(sw, q, q1), 'r = r * 0.5']
        return routine(name, [n, m, kf, 'a', 'r'], use, decls, body)
    if 'arith' in sw:
        body += [f'i = {n} / 2 + mod({m}, 2)', f'r = r + real({n} * 2 + {m} - {kf}) + real(i)']
    if 'callee_n_only' in sw:
        body += [f'call side({n}, a(:, 1), r)']
    if 'expr_actual' in sw:
        body += [f'call side({n} - 1, a(1:{n} - 1, 2), r)']
    if 'callee_kf_only' in sw:
        body += [f'call flagr({kf}, r)']
    if 'callee_only_param_decl' in sw:
        body += [f'call tick({kf})', 'r = r + real(counter)']
    if 'swapped_names' in sw:
        body += [f'call swp({n}, {m}, a, r)']
    if 'same_arg_twice' in sw:
        decls += [f'real :: b({n}, {n})']
        body += ['b = 0.5', f'call sq({n}, {n}, b, r)']
    if 'function_callee' in sw:
        body += [f'r = r + fsum({n}, a(:, 1))']
    body += [call_lev1(sw, q, q1)]
    if 'call_twice' in sw:
        body += [call_lev1(sw, q, q1)]
    if 'second_call_other_actual' in sw:
        decls += ['integer :: k2']
        body += [f'k2 = {kf}', call_lev1(sw, q, q1, kfname='k2')]
    return routine(name, [n, m, kf, 'a', 'r'], use, decls, body)


def gen_lev1(sw, nm):
    q, q2 = nm['lev1'], nm['lev2']
    n, m, kf = q['n'], q['m'], q['kf']
    three = 'two_level' not in sw
    use = uses(sw, ['use l2mod, only: lev2'] if 'separate_modules' in sw and three else [])
    decls = int_decls(sw, q) + [a_decl(sw, q, assumed='assumed_shape' in sw), 'real, intent(inout) :: r', 'integer :: i, j']
    body = [f'do j = 1, {m}', f'  do i = 1, {n}', '    a(i, j) = a(i, j) * 2.0 + real(j)', '  end do', 'end do',
            f'if ({kf} == 1) then', '  r = r + 1.0', 'else', '  r = r - 0.5', 'end if']
    contains = []
    if 'arith' in sw:
        body += [f'i = ({n} + 1) / 2 - mod({m}, 3)', f'r = r + real({m} * {n} - 3 * {kf}) + real(i)']
    if 'local_extent' in sw:
        decls += [f'real :: t({n})', f'real :: w({n}, {m})']
        body += [f'do i = 1, {n}', '  t(i) = real(i) * 0.25', 'end do', 'w = 1.5',
                 f'do j = 1, {m}', f'  do i = 1, {n}', '    a(i, j) = a(i, j) + t(i) + w(i, j)', '  end do', 'end do']
    if 'index_use' in sw:
        body += [f'a({n}, 1) = a({n}, 1) + 1.0', f'a(1, {m}) = a(1, {m}) - 1.0']
    if 'intrinsic_arg' in sw:
        body += [f'r = r + real(max({n}, {m})) + real(size(a, 1)) + real(ubound(a, 2)) + real(min({kf}, 0))']
    if 'select_case' in sw:
        body += [f'select case ({kf})', 'case (1)', '  r = r + 8.0', 'case (-1)', '  r = r - 8.0', 'case default',
                 '  r = r + 0.25', 'end select']
    if 'other_param' in sw:
        decls += ['integer, parameter :: two = 2', 'real, parameter :: half = 0.5']
        body += [f'r = r + half * real(two * {n})']
    if 'param_array' in sw:
        decls += ['integer, parameter :: wts(2) = (/ 1, 2 /)']
        body += ['do i = 1, 2', f'  r = r + real(wts(i) * {m})', 'end do', 'r = r + real(wts(2))']
    if 'member_host' in sw:
        body += ['call inner()']
        contains = ['subroutine inner()', f'  r = r + real({n}) * 0.5 + a({n}, 1)', 'end subroutine inner']
    if three:
        body += [f'call lev2({n}, {m}, {kf}, a, r)']
    return routine('lev1', [n, m, kf, 'a', 'r'], use, decls, body, contains)


def gen_lev2(sw, nm):
    q = nm['lev2']
    n, m, kf = q['n'], q['m'], q['kf']
    sw2 = [s for s in sw if s != 'upper_case']
    decls = int_decls(sw2, q) + [a_decl(sw2, q, assumed='assumed_shape' in sw), 'real, intent(inout) :: r', 'integer :: i']
    body = [f'do i = 1, {n}', f'  r = r + a(i, {m}) * 0.5', 'end do', 'r = r + sum(a)',
            f'if ({kf} == -1) then', '  r = r * 2.0', 'end if']
    return routine('lev2', [n, m, kf, 'a', 'r'], uses(sw2), decls, body)


HELPERS = {
    'stop_execution': '''subroutine stop_execution(msg)
  character(len=*), intent(in) :: msg
  print *, msg
  stop 1
end subroutine stop_execution''',
    'side': '''subroutine side(n, c, r)
  integer, intent(in) :: n
  real, intent(inout) :: c(n)
  real, intent(inout) :: r
  integer :: i
  do i = 1, n
    c(i) = c(i) + 1.0
  end do
  r = r + real(n)
end subroutine side''',
    'flagr': '''subroutine flagr(kf, r)
  integer, intent(in) :: kf
  real, intent(inout) :: r
  if (kf == 1) then
    r = r + 4.0
  else
    r = r - 1.0
  end if
end subroutine flagr''',
    'tick': '''subroutine tick(kf)
  integer, intent(in) :: kf
  if (kf == 1) then
    counter = counter + 3
  else
    counter = counter + 1
  end if
end subroutine tick''',
    'swp': '''subroutine swp(m, n, a, r)
  integer, intent(in) :: m
  integer, intent(in) :: n
  real, intent(in) :: a(m, n)
  real, intent(inout) :: r
  integer :: i, j
  do j = 1, n
    do i = 1, m
      r = r + a(i, j) * real(i + 2 * j)
    end do
  end do
  r = r + real(4 * m - n)
end subroutine swp''',
    'sq': '''subroutine sq(p, q, b, r)
  integer, intent(in) :: p
  integer, intent(in) :: q
  real, intent(in) :: b(p, q)
  real, intent(inout) :: r
  r = r + sum(b) + real(2 * p - q)
end subroutine sq''',
    'fsum': '''function fsum(n, c) result(s)
  integer, intent(in) :: n
  real, intent(in) :: c(n)
  real :: s
  integer :: i
  s = 0.0
  do i = 1, n
    s = s + c(i) * real(i)
  end do
end function fsum''',
}


def module(name, routines, spec=()):
    out = [f'module {name}', '  implicit none'] + [f'  {ln}' for ln in spec] + ['contains']
    for r in routines:
        out += [f'  {ln}' for ln in (r if isinstance(r, list) else r.splitlines())]
    out.append(f'end module {name}')
    return '\n'.join(out) + '\n'


STOPWRAP_C = r"""
#include <setjmp.h>
#include <stdlib.h>
#include <stddef.h>
#include <stdbool.h>
/* harness-owned: STOP / ERROR STOP of the generated code end the current *input*, not the process */
static jmp_buf env;
static int active = 0;
extern void vf_dispatch(int *which, int *n, int *m, int *kf);
extern void vf_mark(int *kind, int *code, const char *s, int *len);
static void leave(int kind, int code, const char *s, size_t len) {
  int l = (int) len;
  vf_mark(&kind, &code, s ? s : "", &l);
  if (active) longjmp(env, 1);
  exit(code ? code : 1);
}
void _gfortran_stop_numeric(int code, bool quiet) { leave(1, code, NULL, 0); }
void _gfortran_stop_string(const char *s, size_t len, bool quiet) { leave(2, 0, s, len); }
void _gfortran_error_stop_numeric(int code, bool quiet) { leave(3, code ? code : 1, NULL, 0); }
void _gfortran_error_stop_string(const char *s, size_t len, bool quiet) { leave(4, 1, s, len); }
void vf_run(int *which, int *n, int *m, int *kf) {
  active = 1;
  if (setjmp(env) == 0) vf_dispatch(which, n, m, kf);
  active = 0;
}
"""


def driver_text(versions, intercept=False):
    """harness-owned PROGRAM: reads lines `which n m kf`, runs version `which` of the call tree on that input and prints
    every output.  versions: [(subroutine name, module to use, call kern2 as well, module variable `counter` present)].
    intercept=False: one input per process (a tripped guard ends the process).
    intercept=True : the program loops over all input lines; STOP / ERROR STOP are routed (STOPWRAP_C, linked into the
    executable) to a `#STOP kind code text` line and a longjmp back to the loop, so one process serves many inputs."""
    out = []
    for sub, mod, two, cnt in versions:
        second = '  r = r + 0.25\n  call kern2(n, m, kf, a, r)\n' if two else ''
        reset = '  counter = 0\n' if cnt else ''
        out.append(f"""subroutine {sub}(n, m, kf)
  use {mod}
  implicit none
  integer, intent(in) :: n, m, kf
  integer :: i, j
  real, allocatable :: a(:, :)
  real :: r
  allocate(a(n, m))
  do j = 1, m
    do i = 1, n
      a(i, j) = real(i) * 0.5 + real(j) * 0.25 - 1.0
    end do
  end do
  r = 0.25
{reset}  call kern(n, m, kf, a, r)
{second}  write(*, '(A,3(1X,I0))') 'IN', n, m, kf
  write(*, '(A,20(1X,ES14.7))') 'A', a
  write(*, '(A,1X,ES14.7)') 'R', r
end subroutine {sub}
""")
    bind = " bind(C, name='vf_dispatch')" if intercept else ''
    out.append(f'subroutine vf_dispatch(which, n, m, kf){bind}\n  implicit none\n  integer :: which, n, m, kf\n  select case (which)\n')
    for k, (sub, _, _, _) in enumerate(versions, start=1):
        out.append(f'  case ({k})\n    call {sub}(n, m, kf)\n')
    out.append('  end select\nend subroutine vf_dispatch\n')
    if intercept:
        out.append("""subroutine vf_mark(kind, code, s, len) bind(C, name='vf_mark')
  implicit none
  integer :: kind, code, len
  character(len=1) :: s(*)
  character(len=400) :: t
  integer :: i
  t = ' '
  do i = 1, min(len, 400)
    t(i:i) = s(i)
  end do
  write(*, '(A,I0,1X,I0,1X,A)') '#STOP ', kind, code, trim(t)
end subroutine vf_mark
program drv
  implicit none
  interface
    subroutine vf_run(which, n, m, kf) bind(C, name='vf_run')
      integer :: which, n, m, kf
    end subroutine vf_run
  end interface
  integer :: which, n, m, kf, ios
  do
    read(*, *, iostat=ios) which, n, m, kf
    if (ios /= 0) exit
    write(*, '(A,4(1X,I0))') '#BEGIN', which, n, m, kf
    call vf_run(which, n, m, kf)
    write(*, '(A)') '#END'
  end do
end program drv
""")
    else:
        out.append('program drv\n  implicit none\n  integer :: which, n, m, kf\n  read(*, *) which, n, m, kf\n'
                   '  call vf_dispatch(which, n, m, kf)\nend program drv\n')
    return ''.join(out)


def program(sw):
    """-> (sources [[fname, text], ...] in compile order, driver text)"""
    sw = list(sw)
    nm = names_of(sw)
    three = 'two_level' not in sw
    helpers = ['stop_execution']
    if 'callee_n_only' in sw or 'expr_actual' in sw:
        helpers.append('side')
    for s, h in (('callee_kf_only', 'flagr'), ('callee_only_param_decl', 'tick'), ('swapped_names', 'swp'),
                 ('same_arg_twice', 'sq'), ('function_callee', 'fsum')):
        if s in sw:
            helpers.append(h)
    spec = ['integer :: counter = 0'] if 'callee_only_param_decl' in sw else []
    kerns = [gen_kern(sw, nm)] + ([gen_kern(sw, nm, 'kern2')] if 'two_drivers' in sw else [])
    sources = []
    if 'kind_import' in sw:
        sources.append(['kmod.f90', 'module kmod\n  implicit none\n  integer, parameter :: ik = selected_int_kind(9)\nend module kmod\n'])
    if 'separate_modules' in sw:
        if three:
            sources.append(['l2mod.f90', module('l2mod', [gen_lev2(sw, nm)])])
        sources.append(['lmod.f90', module('lmod', [gen_lev1(sw, nm)])])
        sources.append(['pmod.f90', module('pmod', [HELPERS[h] for h in helpers] + kerns, spec)])
    else:
        rts = [HELPERS[h] for h in helpers] + kerns + [gen_lev1(sw, nm)] + ([gen_lev2(sw, nm)] if three else [])
        sources.append(['pmod.f90', module('pmod', rts, spec)])
    driver = driver_text([('drv_v0', 'pmod', 'two_drivers' in sw, 'callee_only_param_decl' in sw)])
    return sources, driver


# ------------------------------------------------------------------------------------------------ case stream
def dic2ps():
    """every subset of one or two of (n, m, kf) x every pool value"""
    out = []
    for k in (1, 2):
        for combo in itertools.combinations(ARGS, k):
            for vals in itertools.product(*(POOL[a] for a in combo)):
                out.append(dict(zip(combo, vals)))
    return out


def case_id(sw, vname, fixed):
    return f'{"+".join(["base"] + list(sw))}|{vname}|{",".join(f"{k}={v}" for k, v in fixed.items())}'


def small_dic2ps():
    """every subset of one or two of (n, m, kf) once, pool values alternating"""
    out = []
    for k in (1, 2):
        for i, combo in enumerate(itertools.combinations(ARGS, k)):
            out.append({a: POOL[a][(i + j) % 2] for j, a in enumerate(combo)})
    return out


D2_PLAN = [('param', dict(n=2, kf=-1)), ('param', dict(m=4)), ('param-rbv', dict(n=3, m=3))]


def plan(nsw, d):
    """[(variant, dic2p)] for a program with nsw switches in the tier with bound d"""
    allv = [v for v, _ in VARIANTS]
    if nsw == 0:
        return [(v, f) for v in allv for f in dic2ps()]
    if nsw == 1:
        return [(v, f) for v in (D1_QUICK_VARIANTS if d == 1 else allv) for f in small_dic2ps()]
    return list(D2_PLAN)


def make_cases(d, variants=None):
    cases = []
    menu = {k: [True] for k in SWITCHES}
    for dev in deviations(menu, d):
        sw = [k for k in SWITCHES if k in dev]
        if any(inc <= set(sw) for inc in INCOMPATIBLE):
            continue
        sources, driver = program(sw)
        nm = names_of(sw)
        vopts_of = dict(VARIANTS)
        for vname, fixed in plan(len(sw), d):
            if variants is not None and vname not in variants:
                continue
            vopts = vopts_of[vname]
            entry = vopts['entry'] or 'kern'
            dic2p = {nm[entry][k].lower(): v for k, v in fixed.items()}
            cases.append(dict(id=case_id(sw, vname, fixed), sources=sources, driver=driver, xform=vname,
                              opts=dict(vopts, dic2p=dic2p), switches=sw, fixed=fixed, inputs=INPUTS,
                              seeds=['kern'] + (['kern2'] if 'two_drivers' in sw else [])))
    return cases


# ------------------------------------------------------------------------------------------------ transformation
def cb_error_stop(**kwargs):
    from loki.ir import nodes as ir
    return (ir.GenericStmt(text=f'error stop "{kwargs.get("msg")}"'),)


def cb_call_stop(**kwargs):
    from loki.ir import nodes as ir
    from loki.expression import symbols as sym
    return (ir.CallStatement(name=sym.Variable(name='stop_execution'), arguments=(sym.StringLiteral(f'{kwargs.get("msg")}'),)),)


CALLBACKS = {None: None, 'error_stop': cb_error_stop, 'call_stop': cb_call_stop}


def apply(case, files):  # pylint: disable=unused-argument
    """write the sources into a scratch directory, run a real Scheduler with ParametriseTransformation, read back every file"""
    from loki import Frontend
    from loki.batch import Scheduler, SchedulerConfig
    from loki.transformations.parametrise import ParametriseTransformation
    o = case['opts']
    base = '/dev/shm' if os.path.isdir('/dev/shm') and os.access('/dev/shm', os.W_OK) else None
    tmp = tempfile.mkdtemp(prefix='c39_', dir=base)
    try:
        for fname, text in case['sources']:
            with open(os.path.join(tmp, fname), 'w') as fh:
                fh.write(text)
        config = SchedulerConfig.from_dict(SCHED_CONFIG)
        scheduler = Scheduler(paths=[tmp], config=config, seed_routines=list(case.get('seeds', ['kern'])),
                              frontend=Frontend.FP, xmods=[tmp])
        trafo = ParametriseTransformation(dic2p=dict(o['dic2p']), replace_by_value=o['replace_by_value'],
                                          abort_callback=CALLBACKS[o['abort']],
                                          entry_points=(o['entry'],) if o['entry'] else None)
        scheduler.process(transformation=trafo)
        out = {}
        for item in scheduler.items:
            src = getattr(item, 'source', None)
            path = getattr(src, 'path', None)
            if src is not None and path is not None and os.path.basename(str(path)) not in out:
                out[os.path.basename(str(path))] = src.to_fortran()
        if 'pmod.f90' not in out:
            raise RuntimeError(f'harness: scheduler did not return pmod.f90 (items: {[i.name for i in scheduler.items]})')
        return out
    finally:
        shutil.rmtree(tmp, ignore_errors=True)


# ------------------------------------------------------------------------------------------------ oracle
MODNAMES = re.compile(r'\b(pmod|lmod|l2mod)\b', re.I)


def version_text(sources, tag):
    """one text for all files of one version (kmod excluded: it is shared), module names suffixed with `tag`"""
    text = ''.join(t if t.endswith('\n') else t + '\n' for f, t in sources if f != 'kmod.f90')
    return MODNAMES.sub(lambda m: m.group(1) + tag, text)


def run_jobs(b, jobs, intercept):
    """jobs: [(which, input)] -> [dict(rc, out, err)] in order"""
    if not intercept:
        res = []
        for k, inp in jobs:
            rc, out, err = b.run(['./a.out'], timeout=60, stdin=' '.join(str(v) for v in [k] + list(inp)) + '\n')
            res.append(dict(rc=rc, out=out, err=err[:600] + err[600:][-300:]))
        return res
    res = []
    todo = list(jobs)
    while todo:
        stdin = ''.join(' '.join(str(v) for v in [k] + list(inp)) + '\n' for k, inp in todo)
        rc, out, err = b.run(['./a.out'], timeout=120, stdin=stdin)
        blocks, cur, closed = [], None, []
        for ln in out.splitlines():
            if ln.startswith('#BEGIN'):
                cur = dict(rc=0, lines=[])
                blocks.append(cur)
                closed.append(False)
            elif ln.startswith('#END') and cur is not None:
                closed[-1] = True
                cur = None
            elif cur is not None:
                m = re.match(r'#STOP (\d+) (-?\d+) ?(.*)$', ln)
                if m:
                    cur['rc'] = int(m.group(2)) if m.group(1) != '2' else 0
                    if m.group(3).strip():
                        cur['lines'].append(m.group(3).strip())
                else:
                    cur['lines'].append(ln)
        ndone = 0
        for blk, ok in zip(blocks, closed):
            if not ok:
                break
            res.append(dict(rc=blk['rc'], out='\n'.join(blk['lines']) + '\n', err=''))
            ndone += 1
        if ndone == len(todo):
            break
        # the process died inside (or before) job `ndone`: attribute the failure to it and go on with the rest
        part = blocks[ndone]['lines'] if ndone < len(blocks) else []
        res.append(dict(rc=rc if rc != 0 else -1, out='\n'.join(part) + '\n', err=err[-400:]))
        todo = todo[ndone + 1:]
    return res


def build_versions(common, versions, inputs, base=None, memo=False, intercept=True):
    """versions: [(tag, sources, two_drivers, counter)] -> dict(ok, err) | dict(ok=True, runs={tag: [dict(rc, out, err) per input]}).
    ONE gfortran invocation for all versions; intercept=True: one process for all (version, input) jobs."""
    text = ''.join(t if t.endswith('\n') else t + '\n' for _, t in common)
    text += ''.join(version_text(src, tag) for tag, src, _, _ in versions)
    text += driver_text([(f'drv{tag}', f'pmod{tag}', two, cnt) for tag, _, two, cnt in versions], intercept=intercept)
    path = None
    if memo and base:
        key = hashlib.sha1((json.dumps(inputs) + '\0' + text).encode()).hexdigest()
        path = os.path.join(str(base), f'memo39_{key}.json')
        try:
            with open(path) as fh:
                return json.load(fh)
        except (OSError, ValueError):
            pass
    with gf.Build(base) as b:
        b.write('all.f90', text)
        files = ['all.f90']
        if intercept:
            b.write('stopwrap.c', STOPWRAP_C)
            files.append('stopwrap.c')
        ok, err = b.fcompile(files, flags=list(xform.FLAGS))
        if not ok:
            return dict(ok=False, err=err)
        jobs = [(k, inp) for k, _ in enumerate(versions, start=1) for inp in inputs]
        flat = run_jobs(b, jobs, intercept)
        runs = {tag: flat[i * len(inputs):(i + 1) * len(inputs)] for i, (tag, _, _, _) in enumerate(versions)}
    res = dict(ok=True, runs=runs)
    if path:
        tmp = f'{path}.{os.getpid()}.tmp'
        with open(tmp, 'w') as fh:
            json.dump(res, fh)
        os.replace(tmp, path)
    return res


def judge_runs(case, orig_runs, runs):
    fixed = case['fixed']
    matched = tripped = 0
    for inp, o, t in zip(case['inputs'], orig_runs, runs):
        match = all(inp[ARGS.index(k)] == v for k, v in fixed.items())
        if match:
            if t['rc'] != 0:
                return dict(verdict='xform-run-error', changed=True,
                            detail=f'matching input {inp}: exit status {t["rc"]}: {(t["err"] or t["out"])[-300:]}')
            a, b = xform.norm_out(o['out']), xform.norm_out(t['out'])
            if a != b:
                n = next((i for i, (x, y) in enumerate(zip(a, b)) if x != y), min(len(a), len(b)))
                return dict(verdict='output-differs', changed=True,
                            detail=f'matching input {inp}: first difference at output line {n + 1}: original '
                                   f'{a[n] if n < len(a) else "<eof>"!r} vs transformed {b[n] if n < len(b) else "<eof>"!r}')
            matched += 1
        else:
            if t['rc'] == 0 or GUARD_TEXT not in t['out'] + t['err']:
                return dict(verdict='guard-missed', changed=True,
                            detail=f'input {inp} does not match {fixed} but the guard did not trip: exit status {t["rc"]}, '
                                   f'output {(t["out"] + t["err"])[-200:]!r}')
            tripped += 1
    return dict(verdict='ok', detail='', changed=matched > 0 and tripped > 0, matched=matched, tripped=tripped)


def run_group(cases, base=None, intercept=True):
    """cases share sources/driver/inputs (one program): -> list of result dicts, one gfortran build for the whole group
    (individual builds only if the joint build fails, to attribute the compile error)"""
    import traceback
    xform.quiet()
    c0 = cases[0]
    inputs = c0['inputs']
    two = 'two_drivers' in c0['switches']
    cnt = 'callee_only_param_decl' in c0['switches']
    common = [[f, t] for f, t in c0['sources'] if f == 'kmod.f90']
    orig = build_versions(common, [('_v0', c0['sources'], two, cnt)], inputs, base=base, memo=True, intercept=intercept)
    if not orig['ok']:
        return [dict(id=c['id'], verdict='HARNESS', detail=f'original does not build: {orig["err"][-600:]}', changed=False) for c in cases]
    oruns = orig['runs']['_v0']
    bad = [(i, r) for i, r in zip(inputs, oruns) if r['rc'] != 0 or not r['out'].strip()]
    if bad:
        return [dict(id=c['id'], verdict='HARNESS', changed=False,
                     detail=f'original fails on input {bad[0][0]}: rc={bad[0][1]["rc"]} {bad[0][1]["err"]}') for c in cases]
    results = {}
    versions = []
    for n, case in enumerate(cases):
        try:
            try:
                ret = apply(case, None)
            except Exception:  # pylint: disable=broad-except
                # a defect of the transformation fails again; a transient failure of the (heavily shared) machine does not
                ret = apply(case, None)
        except Exception as ex:  # pylint: disable=broad-except
            tb = traceback.format_exc().strip().splitlines()
            where = next((ln.strip() for ln in reversed(tb) if ln.strip().startswith('File "') and '/loki/' in ln
                          and '/loki/batch/' not in ln), '')
            where = re.sub(r'File ".*?/(loki/[^"]*)", line \d+, in (\w+)', r'\1:\2', where)
            if xform.is_refusal(ex):
                results[n] = dict(verdict='refused', detail=f'{type(ex).__name__}: {str(ex)[:200]}', changed=False)
            else:
                cause = ex.__cause__ or ex
                results[n] = dict(verdict='loki-exception', changed=False,
                                  detail=f'{type(cause).__name__}: {str(cause)[:200]} [{str(ex)[:120]}] @ {where}')
            continue
        versions.append((f'_v{n + 1}', [[f, ret.get(f) or t] for f, t in case['sources']], two, cnt, n))
    if versions:
        res = build_versions(common, [v[:4] for v in versions], inputs, base=base, intercept=intercept)
        if res['ok']:
            for tag, _, _, _, n in versions:
                results[n] = judge_runs(cases[n], oruns, res['runs'][tag])
        else:
            for tag, src, _, _, n in versions:
                one = build_versions(common, [(tag, src, two, cnt)], inputs, base=base, intercept=intercept) if len(versions) > 1 else res
                if not one['ok']:
                    results[n] = dict(verdict='xform-compile-error', detail=(one['err'] or '')[-900:], changed=True)
                else:
                    results[n] = judge_runs(cases[n], oruns, one['runs'][tag])
    out = []
    for n, case in enumerate(cases):
        r = results[n]
        r['id'] = case['id']
        out.append(r)
    return out


def run_case(case, base=None):
    return run_group([case], base=base)[0]


def worker(group):
    return run_group(group, base=worker.base)


worker.base = None


EXPLAINED_BY = {'param-rbv': ('param',), 'param-errstop': ('param',), 'param-callstop': ('param', 'param-rbv'),
                'param-entry': ('param',), 'param-entry-rbv': ('param', 'param-rbv', 'param-entry')}


def exc_class(detail):
    return detail.split(':', 1)[0]


def sigfn(cases, results):
    """A failing smaller case explains a case that contains it (same verdict, for exceptions the same exception class):
    smaller = fewer switches (none, then each single switch), fewer parametrised arguments (each single one, then the
    pair; any value) and a simpler variant (defaults explain every option variant, replace_by_value explains the
    variants that add something to it).  `args=any` when every single argument fails the same way."""
    def kind(r):
        return (r['verdict'], exc_class(r['detail']) if r['verdict'] == 'loki-exception' else '')

    seen = {}
    for c, r in zip(cases, results):
        if len(c['switches']) <= 1:
            seen.setdefault((c['switches'][0] if c['switches'] else None, c['xform'], tuple(c['fixed'])), set()).add(kind(r))

    def sig(case, r):
        vname, fixed = case['xform'], case['fixed']
        subs = [(a,) for a in fixed] + ([tuple(fixed)] if len(fixed) > 1 else [])
        for sw in [None] + list(case['switches']):
            for vn in EXPLAINED_BY.get(vname, ()) + (vname,):
                for sub in subs:
                    if kind(r) not in seen.get((sw, vn, sub), ()):
                        continue
                    args = '+'.join(sub)
                    if len(sub) == 1 and all(kind(r) in seen.get((sw, vn, (a,)), ()) for a in ARGS):
                        args = 'any'
                    what = f' {exc_class(r["detail"])}' if r['verdict'] == 'loki-exception' else ''
                    return f'{r["verdict"]}{what} block={sw or "base"} xform={vn} args={args}'
        return f'{r["verdict"]} blocks={"+".join(case["switches"]) or "base"} xform={vname} args={"+".join(fixed)}'
    return sig


def conformance(group):
    """the base-tree group judged with the shim and with one process per input: verdicts must agree (a disagreement is
    re-examined once: on the heavily shared machine a plain process occasionally dies of a time-out)"""
    rows = []
    for attempt in (1, 2):
        a = run_group(group, base=worker.base, intercept=True)
        b = run_group(group, base=worker.base, intercept=False)
        rows = [(x['id'], x['verdict'], y['verdict'], x.get('matched'), y.get('matched'), x.get('tripped'), y.get('tripped'))
                for x, y in zip(a, b)]
        if all(r[1] == r[2] and r[3] == r[4] and r[5] == r[6] for r in rows):
            break
    return rows


def run(ctx):
    d = 1 if ctx.quick else 2
    cases = make_cases(d)
    worker.base = str(ctx.scratch)
    ctx.reset_pool()
    groups = {}
    for c in cases:
        groups.setdefault((c['id'].split('|')[0], c['xform']), []).append(c)
    from vf.explore import seeded_order
    glist = seeded_order(list(groups.values()), ctx.seed)
    by_id = {r['id']: r for res in ctx.pmap(worker, glist, chunksize=1) for r in res}
    results = [by_id[c['id']] for c in cases]
    if os.environ.get('VERIF_DUMP'):
        with open(os.environ['VERIF_DUMP'], 'w') as fh:
            json.dump([dict(id=c['id'], switches=c['switches'], xform=c['xform'], fixed=c['fixed'], result=r)
                       for c, r in zip(cases, results)], fh)
    # shim vs plain processes on the base tree (every variant, all 18 dic2p)
    conf = [row for res in ctx.pmap(conformance, [g for g in glist if not g[0]['switches']], chunksize=1) for row in res]
    bad = [row for row in conf if row[1] != row[2] or row[3] != row[4] or row[5] != row[6]]
    ctx.require(not bad, f'STOP shim and one-process-per-input mode disagree: {bad[:3]}')
    xform.summarise(ctx, cases, results, sigfn(cases, results), min_changed=50)
    per_variant = {}
    for c, r in zip(cases, results):
        pv = per_variant.setdefault(c['xform'], dict(cases=0, ok=0, matched_runs=0, tripped_runs=0))
        pv['cases'] += 1
        pv['ok'] += int(r['verdict'] == 'ok')
        pv['matched_runs'] += r.get('matched', 0)
        pv['tripped_runs'] += r.get('tripped', 0)
    for v, pv in per_variant.items():
        ctx.require(pv['matched_runs'] > 0 and pv['tripped_runs'] > 0, f'vacuous: variant {v}: {pv}')
    programs = len({json.dumps(c['sources']) for c in cases})
    ctx.cov.update(
        exhaustive=True, per_variant=per_variant, programs=programs, runs=(programs + len(cases)) * len(INPUTS),
        traces_validated_against_impl=len(conf),
        bound=dict(max_switches=d, switches=len(SWITCHES), variants=[v for v, _ in VARIANTS], dic2p_full=len(dic2ps()),
                   dic2p_small=len(small_dic2ps()), pool=POOL, inputs=len(INPUTS),
                   grading={'0 switches': 'all variants x 18 dic2p',
                            '1 switch': f'{list(D1_QUICK_VARIANTS)} x 6 dic2p' if d == 1 else 'all variants x 6 dic2p',
                            '2 switches': f'{[(v, sorted(f)) for v, f in D2_PLAN]}' if d >= 2 else 'not in this tier'}),
        rule=f'all combinations of <= {d} of {len(SWITCHES)} feature switches x variants x dic2p, graded as in bound.grading '
             f'(18 = every subset of 1-2 of n, m, kf x every pool value; 6 = every subset once); every case is run on all '
             f'{len(INPUTS)} inputs; non-trivial = at least one input matched with identical output and at least one input '
             'tripped the guard; traces_validated = base-tree cases judged identically with the STOP shim and with one '
             'process per input',
        samples=[dict(id=cases[0]['id']), dict(id=cases[-1]['id'], text=cases[-1]['sources'][-1][1])],
    )
    ctx.assumptions += ['gfortran -O0 -fcheck=bounds defines behaviour', 'only standard-conforming programs are generated',
                        'dic2p is spelled with the lower-cased dummy names of the entry point; integer arguments only',
                        'STOP / ERROR STOP are observed through a linked shim overriding _gfortran_(error_)stop_*; '
                        'cross-checked against real process exits on the base tree']


def replay(case):
    r = run_case(case)
    if r['verdict'] == 'HARNESS':
        raise RuntimeError(r['detail'])
    return None if r['verdict'] in ('ok', 'unchanged-ok', 'refused') else f'{r["verdict"]}: {r["detail"]}'
