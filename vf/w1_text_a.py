"""Harness-owned free-form Fortran lexer (shared by C04 / C05).

Written from the free-form source rules of the Fortran standard (F2008 3.3.2): it shares
no code with Loki or fparser.

  split_comment(line, instr)   split one physical line into (code, comment, string state at end)
  statements(text)             logical statements: continuation lines joined the way a
                               Fortran processor joins them ('&' at the end, optional leading
                               '&' on the next line, comment/blank lines in between skipped)
  tokenize(code)               token list of a piece of code; character literals (with doubled
                               quotes) are atomic
  line_payload_tokens(line)    tokens of one physical line without indentation and
                               continuation markers + the trailing comment

Sentinel lines ('!$acc ...', '!$omp ...', '!$loki ...') are treated as statements of their
own with the sentinel as first token and the same '&' continuation convention.
"""
import re

_TOKEN = re.compile(r"""
    (?P<str>'(?:[^']|'')*'|"(?:[^"]|"")*")
  | (?P<num>(?:\d+(?:\.(?![A-Za-z]+\.)\d*)?|\.\d+)(?:[eEdD][+-]?\d+)?(?:_\w+)?)
  | (?P<dotop>\.[A-Za-z]+\.)
  | (?P<id>[A-Za-z_$][\w$]*)
  | (?P<op>\*\*|//|==|/=|<=|>=|=>|::|\(/|/\))
  | (?P<ch>\S)
""", re.X)

_SENTINEL = re.compile(r'^\s*(!\$\w+)(?=\s|&|$)')


def tokenize(code):
    """Tokens of a piece of Fortran code (no comments, no continuation markers).
    An unterminated character literal is returned as one token starting at the quote."""
    out = []
    pos = 0
    n = len(code)
    while pos < n:
        c = code[pos]
        if c.isspace():
            pos += 1
            continue
        m = _TOKEN.match(code, pos)
        if m.lastgroup == 'ch' and c in '\'"':
            out.append(code[pos:].rstrip())     # unterminated literal
            break
        out.append(m.group(0))
        pos = m.end()
    return out


def split_comment(line, instr=None):
    """(code, comment or None, string delimiter still open at end of line or None)."""
    q = instr
    i = 0
    n = len(line)
    while i < n:
        c = line[i]
        if q:
            if c == q:
                if i + 1 < n and line[i + 1] == q:
                    i += 2
                    continue
                q = None
        elif c in '\'"':
            q = c
        elif c == '!':
            return line[:i], line[i:], None
        i += 1
    return line, None, q


def statements(text):
    """List of dict(code=joined statement text, comments=[...], lines=[physical line numbers],
    sentinel=str|None).  Full-line comments become statements with empty code."""
    out = []
    cur = None          # open (continued) statement
    instr = None
    for ln, raw in enumerate(text.split('\n'), start=1):
        line = raw.rstrip('\r')
        ms = _SENTINEL.match(line)
        if ms and instr is None:
            sent = ms.group(1)
            body = line[ms.end():]
            code, comment, _ = split_comment(body)
            s = code.strip()
            cont = s.endswith('&')
            if cont:
                s = s[:-1]
            if s.lstrip().startswith('&') and cur is not None and cur.get('sentinel'):
                s = s.lstrip()[1:]
            if cur is not None and cur.get('sentinel') and cur['sentinel'].lower() == sent.lower():
                cur['code'] += s
                cur['lines'].append(ln)
            else:
                if cur is not None:
                    out.append(cur)
                cur = dict(code=s, comments=[], lines=[ln], sentinel=sent)
            if comment:
                cur['comments'].append(comment.rstrip())
            if not cont:
                out.append(cur)
                cur = None
            continue
        code, comment, q = split_comment(line, instr)
        if cur is not None and not cur.get('sentinel'):
            # we are in a continued statement
            if instr is None and not code.strip():
                # blank or comment line inside a continuation: skipped by the processor
                if comment:
                    cur['comments'].append(comment.rstrip())
                continue
            body = code
            st = body.lstrip()
            if st.startswith('&'):
                body = st[1:]
            cont = False
            if q is not None:
                # character context continuation: the '&' must be the last nonblank char
                rb = body.rstrip()
                if rb.endswith('&'):
                    body = rb[:-1]
                    cont = True
            else:
                rb = body.rstrip()
                if rb.endswith('&'):
                    body = rb[:-1]
                    cont = True
            cur['code'] += body
            cur['lines'].append(ln)
            if comment:
                cur['comments'].append(comment.rstrip())
            instr = q if cont else None
            if not cont:
                out.append(cur)
                cur = None
            continue
        if cur is not None:
            out.append(cur)
            cur = None
        if not code.strip():
            if comment is not None:
                out.append(dict(code='', comments=[comment.rstrip()], lines=[ln], sentinel=None))
            continue
        body = code
        rb = body.rstrip()
        cont = rb.endswith('&')
        if cont:
            body = rb[:-1]
        cur = dict(code=body, comments=[comment.rstrip()] if comment else [], lines=[ln], sentinel=None)
        instr = q if cont else None
        if not cont:
            out.append(cur)
            cur = None
    if cur is not None:
        out.append(cur)
    return out


def statement_tokens(st):
    toks = ([st['sentinel'].lower()] if st.get('sentinel') else []) + tokenize(st['code'])
    return toks


def token_stream(text, with_comments=True):
    """Flat token sequence of a whole source text; a comment is one token ('!...')."""
    out = []
    for st in statements(text):
        out += statement_tokens(st)
        if with_comments:
            out += [c for c in st['comments']]
    return out


def line_payload(line):
    """(payload tokens, comment) of one physical line: indentation, a leading '&', a trailing
    '&' and (for sentinel lines) the sentinel are not payload."""
    ms = _SENTINEL.match(line)
    if ms:
        line = line[ms.end():]
    code, comment, _ = split_comment(line)
    s = code.strip()
    if s.startswith('&'):
        s = s[1:]
    s = s.rstrip()
    if s.endswith('&'):
        s = s[:-1]
    return tokenize(s), (comment.rstrip() if comment is not None else None), code
