#!/venv/bin/python
"""Developer tool (never used at check run time): turn the replay files of the last run of a check into
`open` entries of known_findings/<ID>.json after the lead has triaged them as genuine defects.
usage: adopt_findings.py C29 ["root cause text"] [signature-substring-filter]"""
import json, sys
from pathlib import Path
ROOT = Path(__file__).resolve().parent.parent
pid = sys.argv[1]
cause = sys.argv[2] if len(sys.argv) > 2 else None
flt = sys.argv[3] if len(sys.argv) > 3 else ''
f = ROOT / 'known_findings' / f'{pid}.json'
cur = json.loads(f.read_text()) if f.exists() else []
have = {e['signature'] for e in cur}
n = 0
for rp in sorted((ROOT / 'replays' / pid).glob('*.json')):
    d = json.loads(rp.read_text())
    sig = d['signature']
    if sig in have or flt not in sig:
        continue
    case = d['case']
    ex = case.get('id') or case.get('name') or case.get('path') or str(case)[:200]
    cur.append(dict(property=pid, status='open', signature=sig,
                    what=(cause + ' — ' if cause else '') + d['detail'].splitlines()[0][:300], example=ex))
    have.add(sig)
    n += 1
f.write_text(json.dumps(cur, indent=1) + '\n')
print(f'{pid}: added {n}, total {len(cur)}')
