"""Generic bounded-exhaustive explorers (no sampling anywhere).

bfs()          explicit-state breadth-first search; a state is the history that reaches it
deviations()   every combination of <= d switches away from a default configuration
product_upto() every sequence over an alphabet up to a length, shortest first
seeded_order() deterministic permutation of an enumeration by VERIF_SEED (order only)
shrink()       greedy signature-preserving reduction
"""
import collections
import itertools
import random


def product_upto(alphabet, maxlen, minlen=0):
    for n in range(minlen, maxlen + 1):
        yield from itertools.product(alphabet, repeat=n)


def deviations(menu, d):
    """menu: dict switch -> list of non-default values (or int n for values 1..n).
    Yields dicts {switch: value} with at most d entries, fewest deviations first."""
    keys = list(menu)
    for k in range(0, d + 1):
        for combo in itertools.combinations(keys, k):
            pools = []
            for sw in combo:
                v = menu[sw]
                pools.append(list(range(1, v + 1)) if isinstance(v, int) else list(v))
            for vals in itertools.product(*pools):
                yield dict(zip(combo, vals))


def seeded_order(items, seed):
    """Same set for every seed; the seed only permutes the order of exploration."""
    items = list(items)
    if seed:
        random.Random(seed).shuffle(items)
    return items


def bfs(initial, enabled, step, canon, check, max_depth, max_states=None):
    """Explicit-state BFS where a state is identified with a history (tuple of events).

    initial        -> hashable history prefix (usually ())
    enabled(hist)  -> iterable of events enabled after hist
    step(hist, ev) -> object reached by hist+(ev,) (the caller rebuilds real objects by replay)
    canon(obj)     -> hashable canonical projection used to merge states
    check(hist, ev, obj) -> called on every transition (record violations there)
    Returns dict(states, transitions, depth, capped).
    """
    seen = set()
    frontier = collections.deque([tuple(initial)])
    seen.add(canon(step(tuple(initial), None)))
    transitions = 0
    depth = 0
    capped = False
    while frontier:
        hist = frontier.popleft()
        depth = max(depth, len(hist))
        if len(hist) >= max_depth:
            continue
        for ev in enabled(hist):
            nxt = step(hist, ev)
            transitions += 1
            check(hist, ev, nxt)
            k = canon(nxt)
            if k not in seen:
                if max_states and len(seen) >= max_states:
                    capped = True
                    continue
                seen.add(k)
                frontier.append(hist + (ev,))
    return dict(states=len(seen), transitions=transitions, depth=depth, capped=capped)


def shrink(case, fails, candidates, budget=200):
    """Greedy reduction: candidates(case) yields smaller cases; keep one iff fails(c)
    (fails must also compare the failure signature).  Deterministic."""
    n = 0
    progress = True
    while progress and n < budget:
        progress = False
        for c in candidates(case):
            n += 1
            if n > budget:
                break
            if fails(c):
                case = c
                progress = True
                break
    return case


def bfs_levels(ctx, expand, max_depth, initial_key, max_states=None, on_level=None):
    """Level-synchronous parallel BFS.  expand(hist) is a *top-level* function returning a
    list of (event, canon_key, violations) for every event enabled after `hist`
    (it rebuilds the real objects by replaying hist).  `violations` is a list of
    (signature, case, detail); a transition with violations is not expanded further
    (the state diverged from the model; follow-on noise is not evidence).
    Returns dict(states, transitions, depth, capped, violations)."""
    seen = {initial_key}
    frontier = [()]
    transitions = 0
    viols = []
    depth = 0
    capped = False
    for d in range(max_depth):
        if not frontier:
            break
        results = ctx.pmap(expand, frontier)
        nxt = []
        for hist, res in zip(frontier, results):
            for ev, key, vs in res:
                transitions += 1
                if vs:
                    viols.extend(vs)
                    continue
                if key not in seen:
                    if max_states and len(seen) >= max_states:
                        capped = True
                        continue
                    seen.add(key)
                    nxt.append(tuple(hist) + (ev,))
        frontier = nxt
        depth = d + 1
        if on_level:
            on_level(depth, len(seen), transitions)
    return dict(states=len(seen), transitions=transitions, depth=depth, capped=capped,
                violations=viols, frontier_left=len(frontier))
