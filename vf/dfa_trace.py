"""Facts about actual reads/writes derived from MF interpreter traces (vf/mf.py).

instances(trace)    per dynamic statement instance: variables written, variables with a location
                    read before being written inside the instance
carried(trace)      per loop statement path: variables with a loop-carried flow
                    (location written in iteration p, read in iteration q > p, no write in between)
raw_across(trace)   per statement path executed exactly once: variables with a value written
                    (by the routine) before the instance starts and read at or after its start
"""


def instances(trace):
    """-> list of (path, written_names, read_before_write_names, child_indices) in exit order
    (children before parents); child_indices index into the returned list."""
    out = []
    stack = []   # [path, written_locs, wnames, rbw, children]
    for ev in trace:
        k = ev[0]
        if k == 'enter':
            stack.append([ev[1], set(), set(), set(), []])
        elif k == 'exit':
            path, wl, wn, rbw, ch = stack.pop()
            out.append((path, frozenset(wn), frozenset(rbw), tuple(ch)))
            if stack:
                stack[-1][4].append(len(out) - 1)
        elif k == 'R':
            loc = (ev[1], ev[2])
            for inst in stack:
                if loc not in inst[1]:
                    inst[3].add(ev[1])
        elif k == 'W':
            loc = (ev[1], ev[2])
            for inst in stack:
                inst[1].add(loc)
                inst[2].add(ev[1])
    return out


def carried(trace, loop_vars):
    """loop_vars: {path: loop variable name or None}.  -> {path: set(names)} over all instances."""
    res = {}
    stack = []   # [path, iter_no, last_write_iter{loc: iter}]
    open_loops = []
    for ev in trace:
        k = ev[0]
        if k == 'enter':
            stack.append(ev[1])
            if ev[1] in loop_vars:
                open_loops.append([ev[1], 0, {}])
                res.setdefault(ev[1], set())
        elif k == 'exit':
            p = stack.pop()
            if open_loops and open_loops[-1][0] == p:
                open_loops.pop()
        elif k == 'iter':
            for lp in open_loops:
                if lp[0] == ev[1]:
                    lp[1] += 1
        elif k == 'R':
            loc = (ev[1], ev[2])
            for lp in open_loops:
                w = lp[2].get(loc)
                if w is not None and 0 < w < lp[1] and ev[1] != loop_vars.get(lp[0]):
                    res[lp[0]].add(ev[1])
        elif k == 'W':
            loc = (ev[1], ev[2])
            for lp in open_loops:
                lp[2][loc] = lp[1]
    return res


def raw_across(trace):
    """-> {path: set(names)} for statement paths with exactly one dynamic instance."""
    count = {}
    for ev in trace:
        if ev[0] == 'enter':
            count[ev[1]] = count.get(ev[1], 0) + 1
    once = {p for p, c in count.items() if c == 1}
    # time stamps
    start = {}
    for t, ev in enumerate(trace):
        if ev[0] == 'enter' and ev[1] in once:
            start[ev[1]] = t
    res = {p: set() for p in once}
    last_write = {}      # loc -> time of the live write
    pts = sorted(start.items(), key=lambda kv: kv[1])
    for t, ev in enumerate(trace):
        if ev[0] == 'W':
            last_write[(ev[1], ev[2])] = t
        elif ev[0] == 'R':
            w = last_write.get((ev[1], ev[2]))
            if w is None:
                continue
            for p, ts in pts:
                if ts > t:
                    break
                if w < ts <= t:
                    res[p].add(ev[1])
    return res
