"""C04  Generated Fortran respects the free-form line limit without altering tokens.

Two bounded-exhaustive levels (nothing is sampled):

Level 1 (unit, "tiny world"): the complete product of small `JoinableStringList` worlds --
widths {16, 24}; every continuation shape the backends construct (Fortran ' &\\n<indent>& ' at
three indentations incl. the "indentation reset" branch, the pragma shape ' &\\n!$acc & ', the
pprint/cgen shapes '\\n<indent>'); separators {', ', '', ' + '}; every item sequence up to a
length bound over an atom pool with lengths {1, 3, 7, W-3, W+2} plus quoted strings containing
blanks / parentheses / doubled quotes / the other quote, items with blanks and parentheses; flat
lists, the `format_line` shape [indent, head, join_items(...), tail] (one level of nesting,
separable in {T, F}) and the pragma shape.  Ground truth is `sep.join(items)`.
Item-count bound: quick flat <= 4 / line <= 3 / pragma <= 4 items; thorough adds one item for the
narrow width W=16 (flat <= 5, line <= 4) and for the pragma shape (<= 5).
Scaled-down realism (precondition of a world, not an oracle weakening): as on a 132-column line,
the only atoms that cannot fit on a continuation line of their own are character literals;
worlds in which an identifier atom plus its separator cannot fit are not built (they are counted).

Level 2 (end to end): parameterised constructs, parsed with Frontend.FP from one-statement-per-
line source and printed with `FortranStyle` and `IFSFortranStyle`, swept over *every* value of a
size parameter n (terms / arguments / entities / literal length / nesting depth ...) and of a pad
(length of the first identifier, so that every alignment of a break against the width occurs).
57 construct families (see fam_defs: expressions, calls with positional/keyword arguments,
declarations with attributes/initialisers/string parameters, derived types, procedure headers, USE
ONLY/rename lists, ALLOCATE/DEALLOCATE/NULLIFY, ASSOCIATE, IF/ELSE IF conditions, inline IF/WHERE/
FORALL, WHERE/ELSEWHERE, SELECT CASE lists, WRITE/PRINT/OPEN/FORMAT text statements, DATA, array
constructors, statement functions, !$acc/!$omp pragmas, trailing and full-line comments, string
literals of every length 100..140 in four contexts x five contents, nesting depth 0..30/40).

Oracle (both levels), exactly the statement:
 (W) every emitted line is <= width, unless the line's payload (indentation and continuation
     markers removed) is a single unbreakable token, or the excess is only an original trailing
     comment (the code part fits / is itself a single token);
 (T) joining continuation lines the way a Fortran processor does (harness lexer, vf/w1_text_a.py;
     character literals with doubled quotes are atomic) gives the same token sequence as the
     unwrapped text -- level 1: `sep.join(items)`; level 2: the same IR printed with an
     effectively infinite width (there is no other ground truth for Loki's normalised spelling;
     the original source is compiled too so the generator is known to emit valid Fortran);
 (G) thorough: the wrapped output is accepted by
     `gfortran -fsyntax-only -ffree-line-length-132 -Werror=line-truncation` whenever it contains
     no exempt over-long line.
Weaker readings taken: lines that consist of a lone '&' are left to gfortran (G); nesting depth is
bounded so that the block keywords themselves still fit (the statement does not say what an
unwrappable indentation should do).
"""
import itertools
import re

from vf import w1_text_a as lx

PROPERTY = 'C04'
LEVEL = 'exploration'
META = dict(
    engine='enum',
    technique='exhaustive tiny-world product over JoinableStringList + exhaustive length/pad sweeps of every wrapped '
              'construct under both Fortran styles; independent free-form lexer; gfortran -Werror=line-truncation',
    level_text='every JoinableStringList world within the stated bound and every (construct, n, pad, style) of the sweep: '
               'no over-long line other than a lone unbreakable token / original trailing comment, token sequence equal to '
               'the unwrapped text; thorough: gfortran accepts the 132-column output',
    level_note='level 2 compares against the same IR printed with linewidth 10**6 (Loki normalises spelling, so the source '
               'text is not a token-level reference); lexer is harness-owned; gfortran 12 is the ground truth for line length',
)

WIDTH_INF = 10 ** 6
FREE_FORM_LIMIT = 132      # the statement names the number; a style may only be narrower


def _silence():
    import logging
    logging.disable(logging.CRITICAL)


# =====================================================================================
# shared oracle pieces
# =====================================================================================

def tok_class(t):
    if t[:1] in '\'"':
        q = t[0]
        inner = t[1:-1] if len(t) >= 2 and t[-1] == q else t[1:]
        if q * 2 in inner:
            return 'string-literal-with-doubled-quote'
        return 'string-literal'
    if t.startswith('!'):
        return 'comment'
    if re.match(r'[A-Za-z_$]', t):
        return 'name'
    if re.match(r'[\d.]', t) and any(c.isdigit() for c in t):
        return 'number'
    if t.startswith('.'):
        return 'dot-operator'
    return 'operator'


def first_diff(got, ref):
    for k, (a, b) in enumerate(zip(got, ref)):
        if a != b:
            return k
    return min(len(got), len(ref))


KEYWORDS = {'where', 'if', 'call', 'allocate', 'deallocate', 'associate', 'use', 'data', 'print', 'write', 'select',
            'case', 'do', 'subroutine', 'function', 'module', 'real', 'integer', 'character', 'logical', 'type',
            'forall', 'nullify', 'read', 'open', 'close', 'import', 'interface', 'procedure', 'else', 'end', 'format',
            'continue', 'inquire'}


def stmt_kind(tokens):
    if not tokens:
        return 'empty'
    t = tokens[0].lower()
    if t.startswith('!$'):
        return 'pragma'
    if t.isdigit() and len(tokens) > 1:
        return 'labelled ' + stmt_kind(tokens[1:])
    if t in KEYWORDS and not (len(tokens) > 1 and tokens[1] in ('=', '%', '=>')):
        if t in ('real', 'integer', 'character', 'logical', 'type') and '::' in tokens:
            return 'declaration'
        if t == 'if' and tokens[-1].lower() != 'then':
            return 'inline IF'
        if t == 'where' and tokens.count('=') >= 1:
            return 'inline WHERE'
        return t.upper()
    return 'assignment'


def token_violation(got, ref):
    """None or (signature suffix, detail) for a token-sequence mismatch."""
    if got == ref:
        return None
    k = first_diff(got, ref)
    want = ref[k] if k < len(ref) else '<end>'
    have = got[k] if k < len(got) else '<end>'
    if got.count('&') > ref.count('&'):
        kind = f'leaves stray continuation marker in {stmt_kind(ref)}'
    elif k < len(ref) and k < len(got) and ref[k].startswith(got[k]) and len(got[k]) < len(ref[k]):
        cls = tok_class(ref[k])
        kind = f'splits {cls}' + (f' {ref[k]}' if cls in ('operator', 'dot-operator') else '')
    else:
        kind = f'alters tokens of {stmt_kind(ref)}'
    return kind, f'token #{k}: unwrapped text has {want!r}, joined wrapped text has {have!r}'


def width_violations(text, width, original_comments=None):
    """[(lineno, line, reason)] for physical lines that exceed the width and are not exempt."""
    bad = []
    for ln, line in enumerate(text.split('\n'), start=1):
        if len(line) <= width:
            continue
        toks, comment, code = lx.line_payload(line)
        if comment is not None and original_comments is not None and comment not in original_comments:
            comment, code = None, line           # a comment Loki invented is not exempt
            toks = toks + ['!']
        if len(toks) <= 1:
            continue                             # lone unbreakable token (+ trailing comment) / pure comment
        if comment is not None and len(code.rstrip()) <= width:
            continue                             # only the original trailing comment sticks out
        bad.append((ln, line, 'payload ' + ' '.join(tok_class(t) for t in toks[:6]) +
                    (' ...' if len(toks) > 6 else '')))
    return bad


def width_signature(line):
    toks, _, _ = lx.line_payload(line)
    return f'over-long line with {"several" if len(toks) > 1 else "one"} tokens'


# =====================================================================================
# Level 1: tiny world over JoinableStringList
# =====================================================================================

def l1_atoms(W):
    return ['a', 'abc', 'abcdefg',                       # names of length 1, 3, 7
            "'" + 'x' * (W - 5) + "'",                   # literal of length W-3
            '"' + 'y' * W + '"',                         # literal of length W+2
            "'q r'", "'q)r'", "'i''s'", '"d\'e"',        # blanks, parenthesis, doubled quote, other quote
            'f(x)', 'u v', 'f(x)%y', '1.5e-3',           # parentheses, blank, ')%', number
            '(/ u /)']                                   # array constructor delimiters


def l1_shapes(W):
    """name -> (cont string, indent string that format_line would prepend, flavour)"""
    return {
        'f0': (' &\n& ', '', 'fortran'),
        'f4': (' &\n    & ', '    ', 'fortran'),
        'fdeep': (' &\n' + ' ' * (W - 4) + '& ', ' ' * (W - 4), 'fortran'),      # cont >= width: reset branch
        'acc': (' &\n!$acc & ', '', 'pragma'),
        'p2': ('\n  ', '  ', 'plain'),
        'c2': ('\n    ', '  ', 'plain'),
    }


L1_SEPS = [', ', '', ' + ']
L1_HEADS = ['', 'h = ', 'CALL f(']
L1_TAILS = ['', ')']


def l1_world_ok(W, cont, sep, atoms):
    """Precondition: every non-literal atom with the part of the separator that sticks to it fits on
    a continuation line of its own (true for names <= 63 characters on a 132-column line)."""
    c = cont.splitlines(keepends=True)
    if len(c) == 1:
        c.append('')
    if len(c[0] + c[1]) >= W:
        c = [x.strip(' ') for x in c]
    if not all(W > len(x) for x in c):
        return False
    sticky = sep.rstrip(' ') if sep.strip() and not sep.startswith(' ') else ''
    for a in atoms:
        if a[:1] in '\'"':
            continue
        longest_chunk = max(len(p) for p in re.split(r'\s', a))
        if len(c[1]) + longest_chunk + len(sticky) + len(c[0].rstrip('\n')) > W:
            return False
    return True


def l1_build(spec):
    """spec = dict(W, shape, sep, items, form, head, tail, separable) -> (JoinableStringList, plain text, flavour)"""
    from loki.tools.strings import JoinableStringList as J
    W = spec['W']
    cont, indent, flavour = l1_shapes(W)[spec['shape']]
    items = list(spec['items'])
    sep = spec['sep']
    if spec['form'] == 'flat':
        return J(items, sep=sep, width=W, cont=cont), sep.join(items), flavour
    if spec['form'] == 'pragma':
        its = ['!$acc'] + items
        return J(its, sep=' ', width=W, cont=cont, separable=True), ' '.join(its), flavour
    inner = J(items, sep=sep, width=W, cont=cont, separable=spec['separable'])
    outer = J([indent, spec['head'], inner, spec['tail']], sep='', width=W, cont=cont)
    return outer, indent + spec['head'] + sep.join(items) + spec['tail'], flavour


def l1_judge(spec, want_wrapped=False):
    """[(signature, detail)]"""
    jsl, plain, flavour = l1_build(spec)
    out = str(jsl)
    W = spec['W']
    res = []
    if out != plain:
        if flavour in ('fortran', 'pragma'):
            got = lx.token_stream(out)
        else:
            got = lx.tokenize(out.replace('\n', ' '))
        ref = lx.token_stream(plain) if flavour == 'pragma' else lx.tokenize(plain)
        tv = token_violation(got, ref)
        if tv:
            res.append((f'wrap {tv[0]}' if tv[0].startswith('splits') else f'wrap {tv[0].rsplit(" in ", 1)[0].rsplit(" of ", 1)[0]} '
                        'of a JoinableStringList', f'{tv[1]}; output {out!r}'))
    for ln, line, why in width_violations(out, W):
        res.append((f'wrap leaves {width_signature(line)}', f'line {ln} has {len(line)} > {W} columns ({why}): {line!r}'))
        break
    if want_wrapped:
        return res, '\n' in out
    return res


def l1_tokens_compose(items, sep):
    """item boundaries are token boundaries in the joined text (a caller passes whole tokens)"""
    if sep != '':
        return True
    return lx.tokenize(''.join(items)) == [t for i in items for t in lx.tokenize(i)]


def l1_slices(quick):
    """(W, shape, sep, K, form, first atom index); every slice is enumerated completely."""
    out, skipped = [], []
    for W in (16, 24):
        atoms = l1_atoms(W)
        for shape, (cont, _, flavour) in l1_shapes(W).items():
            deep = not quick and W == 16        # thorough: one more item for the narrow width
            forms = [('pragma', 5 if not quick else 4)] if flavour == 'pragma' else \
                [('flat', 5 if deep else 4), ('line', 4 if deep else 3)]
            for form, K in forms:
                for sep in ([' '] if form == 'pragma' else L1_SEPS):
                    if form == 'line' and sep == '':
                        continue    # join_items is never called with an empty separator for an inner list
                    if not l1_world_ok(W, cont, sep, atoms + (['!$acc'] if form == 'pragma' else [])):
                        skipped.append(f'W={W} shape={shape} sep={sep!r} form={form}')
                        continue
                    for first in range(len(atoms)):
                        out.append((W, shape, sep, K, form, first))
    return out, skipped


def l1_specs_for(args):
    """All specs of one slice; top-level worker: returns (cases, wrapped cases, violations)."""
    W, shape, sep, K, form, first = args
    atoms = l1_atoms(W)
    n = wrapped = 0
    viol = []
    variants = [dict(form='flat', head='', tail='', separable=True)]
    if form == 'line':
        variants = [dict(form='line', head=h, tail=t, separable=sb)
                    for h in L1_HEADS for t in L1_TAILS for sb in (True, False)]
    elif form == 'pragma':
        variants = [dict(form='pragma', head='', tail='', separable=True)]
    for k in range(1, K + 1):
        for rest in itertools.product(atoms, repeat=k - 1):
            items = (atoms[first],) + rest
            if not l1_tokens_compose(items, sep):
                continue
            for v in variants:
                if v['form'] == 'line' and sep == '' and v['head'] and \
                        not l1_tokens_compose([v['head'].strip() or 'h'] + list(items), ''):
                    continue
                spec = dict(W=W, shape=shape, sep=sep, items=list(items), **v)
                n += 1
                r, wr = l1_judge(spec, want_wrapped=True)
                wrapped += wr
                for sig, det in r:
                    viol.append((sig, spec, det))
    return n, wrapped, viol


def l1_shrink(spec, sig):
    """Greedy signature-preserving reduction of a level-1 case."""
    from vf.explore import shrink

    def fails(c):
        try:
            return any(s == sig for s, _ in l1_judge(c))
        except Exception:  # pylint: disable=broad-except
            return False

    def cands(c):
        its = c['items']
        for i in range(len(its)):
            if len(its) > 1:
                yield dict(c, items=its[:i] + its[i + 1:])
        for i, a in enumerate(its):
            for b in ('a', 'abc'):
                if len(b) < len(a):
                    yield dict(c, items=its[:i] + [b] + its[i + 1:])
        if c['form'] == 'line':
            if c['head']:
                yield dict(c, head='')
            if c['tail']:
                yield dict(c, tail='')
            if not c['separable']:
                yield dict(c, separable=True)
            yield dict(c, form='flat', head='', tail='', separable=True)
        if c['form'] != 'pragma':
            if c['sep'] != ', ':
                yield dict(c, sep=', ')
            if c['shape'] != 'f0':
                yield dict(c, shape='f0')
            if c['W'] != 16:
                yield dict(c, W=16)

    def valid(c):
        W = c['W']
        return l1_world_ok(W, l1_shapes(W)[c['shape']][0], ' ' if c['form'] == 'pragma' else c['sep'],
                           [i for i in c['items']] + ['abcdefg'])
    return shrink(spec, fails, lambda c: (x for x in cands(c) if valid(x)), budget=300)


# =====================================================================================
# Level 2: end-to-end sweeps
# =====================================================================================

TERMS = ['a', 'bb*ccc', 'arr(i)', 'arr2(i, j)', 'fn(a, bb)', '1.5_jprb', 'tt%x', 'tt%v(i)', '(a - bb)', 'abs(ccc)',
         '2.0_jprb**2', 'arr2(i + 1, j)*0.25_jprb', 'real(n, kind=jprb)', 'max(a, bb, ccc)', 'tt%v(j + 1)/4.0_jprb',
         '1.0e-3_jprb']
ATERMS = ['a', 'bb*ccc', 'arr(i)', 'arr2(i, j)', 'tt%x', 'tt%v(i)', 'arr', 'tt%v(j)', 'arr2(j, i)', 'tt']   # selectors Loki accepts
OPS = [' + ', ' - ', ' + ', '*', ' + ', ' - ']
CONDS = ['a > bb', 'ccc <= 1.5_jprb', 'arr(i) /= tt%x', '.not. (bb >= a)', 'n == 3', 'abs(ccc) < fn(a, bb)',
         'lg', 'tt%v(i) > 0.0_jprb']
LOPS = [' .and. ', ' .or. ', ' .and. ', ' .and. ', ' .or. ']
LITBODY = {
    'plain': lambda L: 'x' * L,
    'blanks': lambda L: ('lorem ipsum dolor ' * (L // 18 + 1))[:L - 1] + 'z',
    'parens': lambda L: ('f(x) (y)%z ) ( ' * (L // 15 + 1))[:L - 1] + 'z',
    'dquote': lambda L: ("don''t it''s " * (L // 13 + 1))[:L - 2].rstrip("'") .ljust(L - 2, 'q') + 'zz',
    'bangamp': lambda L: ('a ! b & c "d" ' * (L // 14 + 1))[:L - 1] + 'z',
}


def _spell(seed):
    """Surface spellings only (same lengths for every seed)."""
    pools = ['qwvz', 'kmhd', 'ujyg']
    return pools[seed % len(pools)]


def fam_defs(quick):
    """family -> (values of the swept size parameter n, pads).  Both ranges are swept completely."""
    def R(lo, q, t):
        return list(range(lo, (q if quick else t) + 1))

    def P(q, t):
        return list(range(0, (q if quick else t) + 1))
    litL = list(range(100, 141)) if quick else list(range(96, 146))
    d = {
        'sum': (R(1, 26, 40), P(3, 6)),
        'call': (R(1, 26, 40), P(3, 6)),
        'callkw': (R(1, 10, 12), P(1, 3)),
        'fncall': (R(1, 20, 32), P(1, 3)),
        'decl': (R(1, 32, 48), P(3, 6)),
        'declattr': (R(1, 20, 32), P(1, 3)),
        'declinit': (R(1, 26, 40), P(1, 3)),
        'paren': (R(1, 10, 13), P(1, 2)),
        'ifcond': (R(1, 16, 24), P(1, 3)),
        'inlineif': (R(1, 16, 24), P(1, 3)),
        'where': (R(1, 16, 24), P(1, 3)),
        'useonly': (R(1, 32, 48), P(3, 6)),
        'alloc': (R(1, 20, 30), P(1, 3)),
        'assoc': (R(1, 16, 24), P(1, 3)),
        'dummies': (R(1, 32, 48), P(3, 6)),
        'selcase': (R(1, 40, 60), P(1, 3)),
        'write': (R(1, 20, 32), P(1, 3)),
        'printq': (R(1, 20, 32), P(1, 3)),
        'pragma_acc': (R(1, 32, 48), P(3, 6)),
        'pragma_omp': (R(1, 32, 48), P(3, 6)),
        'data': (R(1, 40, 60), P(1, 2)),
        'arrayctor': (R(1, 20, 32), P(1, 3)),
        'strcat': (R(1, 20, 32), P(3, 6)),
        'comment': (R(90, 140, 150), P(0, 1)),
        'nest': (R(0, 30, 40), P(0, 1)),
        'forall': (R(1, 14, 22), P(1, 3)),
        'elsewhere': (R(1, 14, 22), P(1, 3)),
        'typedef': (R(1, 24, 36), P(1, 3)),
        'funchead': (R(1, 24, 40), P(1, 3)),
        'declstr': (R(1, 20, 30), P(1, 3)),
        'inlineifcall': (R(1, 20, 30), P(1, 3)),
        'allocopt': (R(1, 16, 26), P(1, 3)),
        'userename': (R(1, 16, 26), P(1, 3)),
        'namedif': (R(1, 12, 20), P(1, 3)),
        'format': (R(1, 24, 36), P(1, 3)),
        'openstmt': (R(1, 40, 60), P(1, 2)),
        'stmtfunc': (R(1, 16, 26), P(1, 3)),
    }
    for ctx in ('assign', 'concat', 'callarg', 'print'):
        for var in LITBODY:
            d[f'lit_{ctx}_{var}'] = (litL, P(0, 1))
    return d


def _terms(n, off=0):
    return [TERMS[(k + off) % len(TERMS)] for k in range(n)]


def _expr(n, off=0):
    ts = _terms(n, off)
    s = ts[0]
    for k in range(1, n):
        s += OPS[(k + off) % len(OPS)] + ts[k]
    return s


def _cond(n, off=0):
    s = CONDS[off % len(CONDS)]
    for k in range(1, n):
        s += LOPS[(k + off) % len(LOPS)] + CONDS[(k + off) % len(CONDS)]
    return s


def gen_units(family, ns, pad, seed):
    """Return dict(aux=str, spec=[...], routines=[text,...]) holding the construct for every n in ns.
    Every construct is preceded by the marker comment '!@case <n>'."""
    sp = _spell(seed)
    lhs = 'r' + sp[0] * pad                      # padded first identifier
    aux = ''
    spec = []
    procs = []
    decls = [f'real(kind=jprb) :: {lhs}'] if pad else []
    body = []
    routines = []

    def mark(n):
        return f'!@case {n}'

    if family.startswith('lit_'):
        _, ctx, var = family.split('_')
        for L in ns:
            lit = "'" + LITBODY[var](L) + "'"
            body.append(mark(L))
            if ctx == 'assign':
                body.append(f's{sp[1] * pad} = {lit}')
            elif ctx == 'concat':
                body.append(f's{sp[1] * pad} = \'ab\' // {lit} // \'cd\' // {lit}')
            elif ctx == 'callarg':
                body.append(f'call ext{sp[1] * pad}s(a, {lit}, bb)')
            else:
                body.append(f'print *, n{sp[1] * pad}, {lit}, a')
        if pad:
            if ctx in ('assign', 'concat'):
                decls.append(f'character(len=400) :: s{sp[1] * pad}')
            if ctx == 'print':
                decls.append(f'integer :: n{sp[1] * pad}')
                body.insert(0, f'n{sp[1] * pad} = 1')
    elif family == 'sum':
        for n in ns:
            body += [mark(n), f'{lhs} = {_expr(n, n)}']
    elif family == 'call':
        for n in ns:
            body += [mark(n), f'call ex{sp[1] * pad}{n}({", ".join(_terms(n, n))})']
    elif family == 'callkw':
        names = [f'p{sp[2]}{k}' for k in range(1, 13)]
        procs.append('subroutine kwsub(' + ', '.join(names) + ')\n' +
                     '\n'.join(f'real(kind=jprb), intent(in), optional :: {x}' for x in names) +
                     '\nend subroutine kwsub')
        for n in ns:
            body += [mark(n), f'call kwsub{"" if not pad else ""}(' +
                     ', '.join(f'{names[k]}={_expr(3 + pad, n + k)}' for k in range(n)) + ')']
    elif family == 'fncall':
        for n in ns:
            decls.append(f'real, external :: fx{n}')      # (a kinded EXTERNAL declaration is printed invalidly by fgen)
            body += [mark(n), f'{lhs} = fx{n}({", ".join(_terms(n, n))}) + a']
    elif family == 'decl':
        for n in ns:
            ents = [f'v{sp[2]}{n}_{k}' + ('(3)' if k % 4 == 2 else '(n, 2)' if k % 7 == 3 else '') for k in range(1, n + 1)]
            decls += [mark(n), f'real(kind=jprb) :: {sp[0] * pad}w{n}, ' + ', '.join(ents)]
    elif family == 'declattr':
        for n in ns:
            ents = [f'u{sp[2]}{n}_{k}' for k in range(1, n + 1)]
            decls += [mark(n), 'integer(kind=selected_int_kind(9)), dimension(1:n, 0:n + 1, 2), target '
                      f':: {sp[0] * pad}t{n}, ' + ', '.join(ents)]
    elif family == 'declinit':
        for n in ns:
            ents = [f'c{sp[2]}{n}_{k} = {k * 7 % 13}' + ('*2 + 1' if k % 3 == 0 else '') for k in range(1, n + 1)]
            decls += [mark(n), f'integer, parameter :: {sp[0] * pad}k{n} = 0, ' + ', '.join(ents)]
    elif family == 'paren':
        for n in ns:
            e = 'a'
            for k in range(n):
                e = f'({e}{OPS[k % len(OPS)]}{TERMS[(k + n) % len(TERMS)]})'
                if k % 3 == 2:
                    e += '*bb'
            body += [mark(n), f'{lhs} = {e}']
    elif family == 'ifcond':
        for n in ns:
            body += [mark(n), f'if ({"lg .and. " * (pad > 0)}{_cond(n, n)}{" .and. lg" * max(0, pad - 1)}) then',
                     'a = bb', 'end if']
    elif family == 'inlineif':
        for n in ns:
            body += [mark(n), f'if ({_cond(n, n)}) {lhs} = {_expr(max(1, n // 2), n)}']
    elif family == 'where':
        for n in ns:
            body += [mark(n), f'where (arr > {_expr(max(1, n // 2), n)}) arr = arr*{sp[0] * pad}a + {_expr(n, n + 1)}']
        if pad:
            decls.append(f'real(kind=jprb) :: {sp[0] * pad}a')
            body.insert(0, f'{sp[0] * pad}a = 1.0_jprb')
    elif family == 'useonly':
        nmax = max(ns)
        gl = [f'g{sp[2]}{k}' + ('_longer' if k % 5 == 0 else '') for k in range(1, nmax + 1)]
        aux = ('module c04_aux' + sp[0] * pad + '\nimplicit none\n' +
               '\n'.join(f'real :: {g}' for g in gl) + '\nend module c04_aux' + sp[0] * pad + '\n')
        for n in ns:
            routines.append(f'subroutine us{n}()\n{mark(n)}\nuse c04_aux{sp[0] * pad}, only: {", ".join(gl[:n])}\n'
                            f'end subroutine us{n}')
    elif family == 'alloc':
        nmax = max(ns)
        names = [f'p{sp[2]}{k}' for k in range(1, nmax + 1)]
        decls.append('real(kind=jprb), allocatable :: ' + ', '.join(f'{x}(:, :)' for x in names))
        for n in ns:
            body += [mark(n), f'allocate({", ".join(f"{x}(n, {k + 1} + {pad})" for k, x in enumerate(names[:n]))})',
                     mark(n), f'deallocate({", ".join(names[:n])})']
    elif family == 'assoc':
        for n in ns:
            body += [mark(n), 'associate(' + ', '.join(f'x{sp[2]}{k}{sp[0] * pad} => {ATERMS[(k + n) % len(ATERMS)]}'
                                                       for k in range(n)) + ')',
                     'a = bb', 'end associate']
    elif family == 'dummies':
        for n in ns:
            names = [f'd{sp[2]}{k}' + ('_opt' if k % 6 == 0 else '') for k in range(1, n + 1)]
            routines.append(f'{mark(n)}\nsubroutine du{sp[0] * pad}{n}({", ".join(names)})\n' +
                            'real, intent(inout) :: ' + ', '.join(names) + f'\nend subroutine du{sp[0] * pad}{n}')
    elif family == 'selcase':
        for n in ns:
            vals = [str(4 * k + 1000 * (k % 4 == 0)) if k % 5 else f'{4 * k}:{4 * k + 1}' for k in range(1, n + 1)]
            body += [f'select case (i + {pad})', mark(n), f'case ({", ".join(vals)})', 'a = bb', 'end select']
    elif family == 'write':
        for n in ns:
            body += [mark(n), f"write(*, '(A{pad + 1}, I0, 99(1X, F8.2))') 'v', n, {', '.join(_terms(n, n))}"]
    elif family == 'printq':
        q = ['"it\'s (ok)"', "'say \"hi\" )'", "'don''t'", '"a ! b"', "'x & y'", 'a', 'tt%v(i)']
        for n in ns:
            body += [mark(n), f"print *, n + {10 ** pad}, " + ', '.join(q[(k + n) % len(q)] for k in range(n))]
    elif family in ('pragma_acc', 'pragma_omp'):
        nmax = max(ns)
        names = [f'z{sp[2]}{k}' for k in range(1, nmax + 1)]
        decls.append('real(kind=jprb) :: ' + ', '.join(names))
        for n in ns:
            if family == 'pragma_acc':
                pr = f'!$acc parallel loop gang vector private({", ".join(names[:n])}) copyin(arr, {lhs})'
            else:
                pr = f'!$omp parallel do private({", ".join(names[:n])}) firstprivate(a, bb, {lhs}) schedule(static)'
            body += [mark(n), pr, 'do i = 1, n', 'arr(i) = a', 'end do']
    elif family == 'data':
        for n in ns:
            decls.append(f'real :: dd{n}({n})')
        for n in ns:
            # DATA statements live in the body part of the spec; keep them after all declarations
            body += [mark(n), f'data dd{n} / ' + ', '.join(f'{k}.{pad}5' for k in range(1, n + 1)) + ' /']
    elif family == 'arrayctor':
        decls.append(f'real(kind=jprb) :: ac{sp[0] * pad}({max(ns)})')
        for n in ns:
            body += [mark(n), f'ac{sp[0] * pad}(1:{n}) = (/ {", ".join(_terms(n, n))} /)'.replace('fn(a, bb)', 'min(a, bb)')]
    elif family == 'strcat':
        q = ["'it''s'", "'plain text'", "'(a) b)c'", "'x''''y'", "'say \"hi\"'", "'a ! b & c'"]
        for n in ns:
            body += [mark(n), f's = s{"(1:" + "1" * pad + ")" if pad else ""} // ' +
                     ' // '.join(q[(k + n) % len(q)] for k in range(n))]
    elif family == 'comment':
        for L in ns:
            body += [mark(L), f'{lhs} = {_expr(6 + pad, L)}  ! ' + ('trailing note ' * 12)[:L],
                     mark(L), '! ' + ('full line note ' * 12)[:L + 30],
                     mark(L), f'{lhs} = {_expr(14, L + 1)}  ! ' + ('second note ' * 12)[:L - 60]]
    elif family == 'nest':
        nmax = max(ns) if ns else 0
        decls.append('integer :: ' + ', '.join(f'i{k}' for k in range(1, nmax + 2)))
        inner = f'{lhs} = {_expr(9, 1)}'
        for dpt in ns:
            body.append(mark(dpt))
            for k in range(dpt):
                body.append(f'do i{k + 1} = 1, 2' if k % 2 == 0 else f'if (a > {k}.0_jprb) then')
            body.append(inner)
            body.append(f"call ext_n{dpt}(a, 'some text (with) parens', {_expr(4, dpt)})")
            for k in reversed(range(dpt)):
                body.append('end do' if k % 2 == 0 else 'end if')
    elif family == 'forall':
        for n in ns:
            body += [mark(n), f'forall (i = 1:n, arr(i) > {_expr(max(1, n // 2), n)}) '.replace('fn(a, bb)', 'min(a, bb)') +
                     f'arr(i) = {lhs}*0.0_jprb + {_expr(n, n + 1)}'.replace('fn(a, bb)', 'min(a, bb)')]
        if pad:
            body.insert(0, f'{lhs} = 1.0_jprb')
    elif family == 'elsewhere':
        for n in ns:
            body += [mark(n), f'where (arr > {_expr(n, n)})', f'arr = {_expr(max(1, n // 2), n + 2)}',
                     f'elsewhere (arr < {lhs}*0.0_jprb - {_expr(n, n + 3)})', 'arr = a', 'elsewhere', 'arr = bb',
                     'end where']
        if pad:
            body.insert(0, f'{lhs} = 1.0_jprb')
    elif family == 'typedef':
        for n in ns:
            comps = [f'c{sp[2]}{k}' + ('(4)' if k % 3 == 0 else '') for k in range(1, n + 1)]
            spec += [mark(n), f'type ty{n}', f'real(kind=jprb) :: {sp[0] * pad}q{n}, ' + ', '.join(comps),
                     f'end type ty{n}']
    elif family == 'funchead':
        for n in ns:
            names = [f'f{sp[2]}{k}' for k in range(1, n + 1)]
            routines.append(f'{mark(n)}\npure elemental function fh{sp[0] * pad}{n}({", ".join(names)}) result(res{n})\n' +
                            'real(kind=jprb), intent(in) :: ' + ', '.join(names) + f'\nreal(kind=jprb) :: res{n}\n' +
                            f'res{n} = ' + ' + '.join(names) + f'\nend function fh{sp[0] * pad}{n}')
    elif family == 'declstr':
        q = ["don''t", 'plain text', '(a) b)c', "x''''y", 'say "hi"', 'a ! b & c']
        for n in ns:
            text = ' '.join(q[(k + n) % len(q)] for k in range(n))
            decls += [mark(n), f"character(len=*), parameter :: {sp[0] * pad}cs{n} = '{text}'"]
    elif family == 'inlineifcall':
        for n in ns:
            body += [mark(n), f'if ({_cond(max(1, n // 3), n)}) call ey{sp[1] * pad}{n}({", ".join(_terms(n, n))})']
    elif family == 'allocopt':
        nmax = max(ns)
        names = [f'p{sp[2]}{k}' for k in range(1, nmax + 1)]
        decls.append('real(kind=jprb), pointer :: ' + ', '.join(f'{x}(:)' for x in names))
        decls.append(f'integer :: ierr{sp[0] * pad}')
        for n in ns:
            body += [mark(n), f'allocate({", ".join(f"{x}(n + {k})" for k, x in enumerate(names[:n]))}, '
                              f'stat=ierr{sp[0] * pad})',
                     mark(n), f'nullify({", ".join(names[:n])})']
    elif family == 'userename':
        nmax = max(ns)
        gl = [f'g{sp[2]}{k}' for k in range(1, nmax + 1)]
        aux = ('module c04_aux' + sp[0] * pad + '\nimplicit none\n' +
               '\n'.join(f'real :: {g}' for g in gl) + '\nend module c04_aux' + sp[0] * pad + '\n')
        for n in ns:
            routines.append(f'subroutine ur{n}()\n{mark(n)}\nuse c04_aux{sp[0] * pad}, ' +
                            ', '.join(f'loc_{g} => {g}' for g in gl[:n]) + f'\nend subroutine ur{n}')
    elif family == 'namedif':
        for n in ns:
            body += [mark(n), f'blk{sp[0] * pad}{n}: if ({_cond(n, n)}) then', 'a = bb',
                     f'else if ({_cond(n, n + 1)}) then blk{sp[0] * pad}{n}', 'a = ccc', f'end if blk{sp[0] * pad}{n}']
    elif family == 'format':
        items = ["'it''s'", 'I0', '1X', 'F8.2', "'(x) y'", 'A', '3(1X, E12.4)']
        for n in ns:
            body += [mark(n), f'{1000 + n} format({", ".join(items[(k + n) % len(items)] for k in range(n))}{", A" * pad})']
    elif family == 'openstmt':
        specs = ["file='some file name.dat'", "form='unformatted'", "access='stream'", "status='unknown'",
                 "action='readwrite'", "position='asis'", 'iostat=i', 'iomsg=s']
        for L in ns:
            body += [mark(L), f"open(unit=10 + {10 ** pad}, " + ', '.join(specs).replace('some file name', ('some file name ' * 8)[:L]) + ')']
    elif family == 'stmtfunc':
        for n in ns:
            names = [f'x{sp[2]}{k}_{n}' for k in range(1, n + 1)]
            decls.append(f'real(kind=jprb) :: sf{sp[0] * pad}{n}, ' + ', '.join(names))
        for n in ns:
            names = [f'x{sp[2]}{k}_{n}' for k in range(1, n + 1)]
            decls += [mark(n), f'sf{sp[0] * pad}{n}({", ".join(names)}) = ' + ' + '.join(f'{x}*2.0_jprb' for x in names)]
    else:
        raise KeyError(family)
    return dict(aux=aux, spec=spec, procs=procs, decls=decls, body=body, routines=routines)


def make_source(family, ns, pad, seed):
    u = gen_units(family, ns, pad, seed)
    # DATA statements must follow the declarations; everything else executable goes after the prologue
    if family == 'data':
        decl_tail, body = u['body'], []
    else:
        decl_tail, body = [], u['body']
    lines = [u['aux'] + 'module c04_mod', 'implicit none', 'integer, parameter :: jprb = selected_real_kind(13, 300)',
             'type tt_t', 'real(kind=jprb) :: x', 'real(kind=jprb) :: v(8)', 'end type tt_t', *u['spec'],
             'contains', *u['procs'],
             'subroutine kern(n, a, bb, ccc, arr, arr2, tt, r, s, lg)',
             'integer, intent(in) :: n', 'real(kind=jprb), intent(inout) :: a, bb, ccc, arr(n), arr2(n, n), r',
             'type(tt_t), intent(inout) :: tt', 'character(len=*), intent(inout) :: s', 'logical, intent(in) :: lg',
             'integer :: i, j', 'real, external :: fn', *u['decls'], *decl_tail,
             'i = 1', 'j = 1', *body, 'end subroutine kern', *u['routines'], 'end module c04_mod', '']
    return '\n'.join(lines)


def styles():
    from loki.backend.style import FortranStyle, IFSFortranStyle
    return {'FortranStyle': FortranStyle, 'IFSFortranStyle': IFSFortranStyle}


def parse(source):
    from loki import Sourcefile, Frontend
    return Sourcefile.from_source(source, frontend=Frontend.FP)


def render(source, style_name, sf=None):
    cls = styles()[style_name]
    sf = sf or parse(source)
    wrapped = sf.to_fortran(style=cls())
    ref = sf.to_fortran(style=cls(linewidth=WIDTH_INF))
    return wrapped, ref, min(cls().linewidth, FREE_FORM_LIMIT)


def split_cases(text):
    """Group the statements of an output text by the '!@case n' marker in force."""
    groups = {}
    cur = None
    for st in lx.statements(text):
        if not st['code'].strip() and not st.get('sentinel') and st['comments'] and st['comments'][0].startswith('!@case'):
            cur = int(st['comments'][0].split()[1])
            continue
        groups.setdefault(cur, []).append(st)
    return groups


def l2_judge_text(wrapped, ref, width, source):
    """({n or None: [(signature, detail)]}, {n: #wrapped statements}, {n: #over-long lines}) for one text pair."""
    res = {}
    orig_comments = set()
    for st in lx.statements(source):
        orig_comments.update(st['comments'])
    gw, gr = split_cases(wrapped), split_cases(ref)
    line_case = {}
    for n, sts in gw.items():
        for st in sts:
            for ln in st['lines']:
                line_case[ln] = (n, st)
    for n in sorted(set(gw) | set(gr), key=lambda x: (x is None, x)):
        sw, sr = gw.get(n, []), gr.get(n, [])
        if len(sw) == len(sr):
            pairs = [(lx.statement_tokens(x) + x['comments'], lx.statement_tokens(y) + y['comments'])
                     for x, y in zip(sw, sr)]
        else:
            pairs = [([t for st in sw for t in lx.statement_tokens(st) + st['comments']],
                      [t for st in sr for t in lx.statement_tokens(st) + st['comments']])]
        for a, b in pairs:
            tv = token_violation(a, b)
            if tv:
                res.setdefault(n, []).append((f'wrap {tv[0]}', tv[1]))
                break
    for ln, line, why in width_violations(wrapped, width, orig_comments):
        n, st = line_case.get(ln, (None, None))
        kind = stmt_kind(lx.statement_tokens(st)) if st is not None else 'unknown'
        res.setdefault(n, []).append((f'wrap leaves {width_signature(line)} in {kind} statement',
                                      f'line has {len(line)} > {width} columns ({why}): {line.strip()[:160]!r}'))
    nwrapped = {n: sum(1 for st in sts if len(st['lines']) > 1) for n, sts in gw.items()}
    overlong = {}
    for ln, line in enumerate(wrapped.split('\n'), start=1):
        if len(line) > width:
            toks, comment, code = lx.line_payload(line)
            if comment is not None and len(code.rstrip()) <= width:
                continue          # only a comment sticks out: gfortran does not mind
            n = line_case.get(ln, (None, None))[0]
            overlong[n] = overlong.get(n, 0) + 1
    return res, nwrapped, overlong


# ---------------------------------------------------------------- gfortran (thorough)

GF_BASE = ['gfortran', '-fsyntax-only', '-fopenmp', '-fopenacc']


def gf_check(text, scratch, limit=True):
    """None if gfortran accepts `text`; otherwise the first error line."""
    import subprocess
    import tempfile
    import shutil
    d = tempfile.mkdtemp(prefix='c04_', dir=scratch)
    try:
        with open(f'{d}/x.f90', 'w') as f:
            f.write(text if text.endswith('\n') else text + '\n')
        flags = ['-ffree-line-length-132', '-Werror=line-truncation'] if limit else ['-ffree-line-length-none']
        r = subprocess.run([*GF_BASE, *flags, 'x.f90'], cwd=d, capture_output=True, text=True, timeout=300,
                           errors='replace')
        if r.returncode == 0:
            return None
        msgs = [l.strip() for l in r.stderr.split('\n') if l.strip().startswith(('Error', 'Fatal Error', 'Warning'))]
        return (msgs[0] if msgs else r.stderr.strip()[-200:]) or 'gfortran failed'
    finally:
        shutil.rmtree(d, ignore_errors=True)


def gf_signature(msg):
    msg = re.sub(r'at \(\d+\)', '', msg)
    msg = re.sub(r"[‘'`].*?[’']", 'X', msg)
    return re.sub(r'\s+', ' ', msg).strip()[:80]


# ---------------------------------------------------------------- level-2 workers

SCRATCH = None


def l2_single(family, ns, pad, style, seed, gfortran=False, scratch=None):
    """Judge one stand-alone source; [(signature, detail)]."""
    _silence()
    src = make_source(family, ns, pad, seed)
    wrapped, ref, width = render(src, style)
    res, _, overlong = l2_judge_text(wrapped, ref, width, src)
    out = [x for lst in res.values() for x in lst]
    if gfortran and not out and not overlong:
        msg = gf_check(wrapped, scratch)
        if msg and gf_check(ref, scratch, limit=False) is None:
            # only a wrapping defect if the unwrapped print of the same IR is accepted
            out.append((f'wrapped output rejected by gfortran: {gf_signature(msg)}', msg))
    return out


def l2_work(item):
    """One (family, pad, chunk of n) batch under both styles.  Returns a dict of counts + violations."""
    family, pad, ns, seed, thorough, scratch = item
    _silence()
    out = dict(family=family, pad=pad, ns=list(ns), cases=0, wrapped=0, overlong_cases=0, compiled=0, ref_rejected=0, viol=[],
               error=None, sample=None)
    src = make_source(family, ns, pad, seed)
    try:
        sf = parse(src)
    except Exception as e:  # pylint: disable=broad-except
        out['error'] = f'generator source rejected by Loki FP ({type(e).__name__}: {str(e)[:200]})'
        return out
    if thorough:
        msg = gf_check(src, scratch, limit=False)
        if msg:
            out['error'] = f'generator source rejected by gfortran: {msg}'
            return out
    for style in styles():
        wrapped, ref, width = render(src, style, sf=sf)
        res, nwrapped, overlong = l2_judge_text(wrapped, ref, width, src)
        out['cases'] += len(ns)
        out['wrapped'] += sum(1 for n in ns if nwrapped.get(n))
        out['overlong_cases'] += sum(1 for n in ns if overlong.get(n))
        if out['sample'] is None:
            n0 = next((n for n in ns if nwrapped.get(n)), None)
            if n0 is not None:
                out['sample'] = dict(level=2, family=family, ns=[n0], pad=pad, style=style, seed=seed)
        bad = set()
        for n, lst in res.items():
            bad.add(n)
            for sig, det in lst:
                case = dict(level=2, family=family, ns=[n], pad=pad, style=style, seed=seed)
                if n is None or not any(s == sig for s, _ in l2_single(family, [n], pad, style, seed)):
                    case['ns'] = list(ns)      # only reproducible in its batch
                out['viol'].append((sig, case, f'{family} n={n} pad={pad} {style}: {det}'))
        if thorough:
            keep = [n for n in ns if n not in bad and not overlong.get(n)]
            if None in bad or overlong.get(None):
                keep = []
            if keep:
                text = wrapped
                if len(keep) != len(ns):
                    text = render(make_source(family, keep, pad, seed), style)[0]
                msg = gf_check(text, scratch)
                out['compiled'] += len(keep)
                if msg and gf_check(ref if len(keep) == len(ns) else
                                    render(make_source(family, keep, pad, seed), style)[1], scratch, limit=False):
                    # the unwrapped print of the same IR is rejected as well: not a wrapping matter (C01/C02)
                    out['ref_rejected'] += 1
                    out['compiled'] -= len(keep)
                    msg = None
                if msg:
                    hit = False
                    for n in keep:
                        r = l2_single(family, [n], pad, style, seed, gfortran=True, scratch=scratch)
                        for sig, det in r:
                            hit = True
                            out['viol'].append((sig, dict(level=2, family=family, ns=[n], pad=pad, style=style,
                                                          seed=seed, gfortran=True),
                                                f'{family} n={n} pad={pad} {style}: {det}'))
                    if not hit:
                        out['viol'].append((f'wrapped output rejected by gfortran: {gf_signature(msg)}',
                                            dict(level=2, family=family, ns=list(keep), pad=pad, style=style, seed=seed,
                                                 gfortran=True), f'{family} ns={keep} pad={pad} {style}: {msg}'))
    return out


CHUNK = {'paren': 3, 'nest': 4, 'sum': 6, 'ifcond': 6, 'where': 6, 'inlineif': 6, 'fncall': 8, 'call': 8,
         'arrayctor': 8, 'write': 8, 'callkw': 4}


def l2_items(quick, seed, scratch):
    items = []
    for fam, (ns, pads) in fam_defs(quick).items():
        ch = CHUNK.get(fam, 12) * (1 if quick else 2)
        for pad in pads:
            for k in range(0, len(ns), ch):
                items.append((fam, pad, ns[k:k + ch], seed, not quick, scratch))
    return items


# =====================================================================================
# run / replay
# =====================================================================================

def run(ctx):
    from vf.explore import seeded_order
    _silence()
    # ---- level 1
    slices, skipped = l1_slices(ctx.quick)
    slices = seeded_order(slices, ctx.seed)
    r1 = ctx.pmap(l1_specs_for, slices, chunksize=1)
    n1 = sum(r[0] for r in r1)
    w1 = sum(r[1] for r in r1)
    viol1 = [v for r in r1 for v in r[2]]
    t1 = ctx.elapsed()
    # ---- level 2
    items = seeded_order(l2_items(ctx.quick, ctx.seed, str(ctx.scratch)), ctx.seed)
    # heavy batches first so that the pool drains evenly
    items.sort(key=lambda it: -(len(it[2]) * (max(it[2]) if it[0] in ('paren', 'nest', 'sum', 'ifcond') else 1)))
    r2 = ctx.pmap(l2_work, items, chunksize=1, ordered=False)
    errs = [f"{r['family']} pad={r['pad']} ns={r['ns']}: {r['error']}" for r in r2 if r['error']]
    ctx.require(not errs, 'level-2 generator emitted sources that Loki/gfortran reject: ' + ' | '.join(errs[:3]))
    n2 = sum(r['cases'] for r in r2)
    w2 = sum(r['wrapped'] for r in r2)
    fam_wrapped = {}
    for r in r2:
        fam_wrapped[r['family']] = fam_wrapped.get(r['family'], 0) + r['wrapped']
    viol2 = [v for r in r2 for v in r['viol']]
    # ---- vacuity guards
    ctx.require(w1 >= 1000, f'level 1 vacuous: only {w1} wrapped worlds')
    dead = [f for f, w in fam_wrapped.items() if not w]
    ctx.require(not dead, f'level 2 vacuous: no wrapped statement in families {dead}')
    if not ctx.quick:
        ncomp, nrej = sum(r['compiled'] for r in r2), sum(r['ref_rejected'] for r in r2)
        ctx.require(ncomp >= n2 // 2 and nrej * 10 <= len(items),
                    f'gfortran stage vacuous: {ncomp} of {n2} cases compiled, {nrej} batches with a rejected reference print')
    # ---- record violations deterministically: smallest case of every signature first
    groups = {}
    for sig, spec, det in viol1:
        groups.setdefault(sig, []).append((1, spec, det))
    for sig, case, det in viol2:
        groups.setdefault(sig, []).append((2, case, det))

    def size(x):
        lvl, c, _ = x
        if lvl == 1:
            return (1, len(c['items']), sum(len(i) for i in c['items']), c['W'], c['shape'], c['form'], c['sep'],
                    c['head'], c['tail'], not c['separable'], c['items'])
        return (2, len(c['ns']), min(c['ns']), c['pad'], c['family'], c['style'])
    for sig in sorted(groups):
        lst = sorted(groups[sig], key=size)
        lvl, c, det = lst[0]
        if lvl == 1:
            c = dict(l1_shrink(c, sig), level=1)
            det = '; '.join(d for s, d in l1_judge(c) if s == sig) or det
        ctx.violation(sig, c, det)
        for lvl, c, det in lst[1:]:
            ctx.violation(sig, dict(c, level=lvl), det)
    fams = fam_defs(ctx.quick)
    ctx.cov.update(
        evaluations=n1 + n2, distinct_nontrivial=w1 + w2, exhaustive=True,
        rule='level 1: every JoinableStringList world (width x continuation shape x separator x form x item sequence up to '
             'the length bound); level 2: every (construct family, n, pad, style); non-trivial = the printer actually '
             'inserted at least one line break (level 1: newline in the result; level 2: a statement of the case spans '
             'several lines); all generated worlds/cases are pairwise distinct by construction',
        level1=dict(worlds=n1, wrapped=w1, violating=len(viol1), skipped_worlds_precondition=skipped, wall_s=round(t1, 1),
                    widths=[16, 24], shapes=sorted(l1_shapes(16)), separators=L1_SEPS,
                    max_items=dict(flat='4' if ctx.quick else '5 for W=16, 4 for W=24',
                                   line='3' if ctx.quick else '4 for W=16, 3 for W=24', pragma=4 if ctx.quick else 5),
                    atoms=l1_atoms(16)),
        level2=dict(cases=n2, wrapped=w2, violating=len(viol2), batches=len(items),
                    cases_with_exempt_overlong_line=sum(r['overlong_cases'] for r in r2),
                    cases_compiled_with_gfortran_132=sum(r['compiled'] for r in r2),
                    batches_whose_unwrapped_print_gfortran_rejects=sum(r['ref_rejected'] for r in r2),
                    wrapped_per_family=fam_wrapped, styles=sorted(styles())),
        samples=[dict(level=1, **slices_sample(slices[0]))] + [r['sample'] for r in r2 if r['sample']][:3],
        bound=dict(level2_families={f: dict(n=[ns[0], ns[-1]], pad=[pads[0], pads[-1]]) for f, (ns, pads) in fams.items()}),
    )
    ctx.assumptions += [
        'level 2 reference is the same IR printed with linewidth 10**6 (a defect that alters tokens identically with and '
        'without wrapping is out of scope of C04; it belongs to C01/C02)',
        'harness lexer (vf/w1_text_a.py) implements F2008 3.3.2 free-form continuation and tokenisation',
        'tiny-world precondition: only character literals may be too long for a continuation line of their own',
        'gfortran 12 -ffree-line-length-132 -Werror=line-truncation is the ground truth for line length (thorough)',
    ]


def slices_sample(sl):
    W, shape, sep, K, form, first = sl
    return dict(W=W, shape=shape, sep=sep, form=form, items=[l1_atoms(W)[first], 'abc'], head='', tail='', separable=True)


def replay(case):
    _silence()
    if case.get('level') == 1:
        spec = {k: v for k, v in case.items() if k != 'level'}
        v = l1_judge(spec)
        return '; '.join(f'[{s}] {d}' for s, d in v) if v else None
    import tempfile
    import shutil
    scratch = tempfile.mkdtemp(prefix='c04r_', dir='/dev/shm')
    try:
        v = l2_single(case['family'], case['ns'], case['pad'], case['style'], case['seed'],
                      gfortran=bool(case.get('gfortran')), scratch=scratch)
    finally:
        shutil.rmtree(scratch, ignore_errors=True)
    return '; '.join(f'[{s}] {d}' for s, d in v) if v else None
