"""setup_cmd: verify tool chain and that `import loki` resolves to /repo. Builds nothing."""
import json, shutil, subprocess, sys
from pathlib import Path

def main():
    ok = True
    import loki
    lp = Path(loki.__file__).resolve()
    print('loki ->', lp)
    import os
    ok &= str(lp).startswith(os.environ.get('VERIF_REPO', '/repo').rstrip('/') + '/')
    for tool in ('gfortran', 'gcc'):
        p = shutil.which(tool)
        print(tool, '->', p)
        ok &= p is not None
    import jsonschema, networkx  # noqa
    root = Path(__file__).resolve().parent.parent
    man = json.loads((root / 'MANIFEST.json').read_text())
    schema = json.loads((root / 'vf' / 'MANIFEST.schema.json').read_text())
    jsonschema.validate(man, schema)
    print('MANIFEST ok:', len(man['checks']), 'checks')
    (root / 'evidence').mkdir(exist_ok=True)
    return 0 if ok else 1

if __name__ == '__main__':
    sys.exit(main())
