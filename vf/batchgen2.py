"""vf/batchgen2.py -- additions to vf/batchgen.py for the pipeline properties C24 (plan vs conversion) and C25
(rename / wrap / duplicate / remove histories).  batchgen.py / batchrun.py are not modified.

Nothing here that serves as an oracle calls Loki: the Fortran reader below is a small line-oriented reader of the
(very regular) text that the project generator and Loki's backend emit; it is cross-checked against gfortran by the
checks that use it (a program it declares resolvable must link, a program it declares unresolvable must not).

PUBLIC API
----------
Projects
    build_project2(spec)       spec = batchgen pspec + optional key `decl` in DECLS:
                                 'implicit'  free-standing callees are called through an implicit interface (batchgen)
                                 'intfb'     every caller declares its free-standing callees in an INTERFACE block -- the
                                             form ModuleWrapTransformation documents ("import of wrapped subroutines via
                                             interfaces ... is replaced by a Fortran import")
                               -> batchgen.Project (files patched) | None (not applicable: no free-standing callee is called)
    enumerate_projects2(nmax, names=, decls=, ...)   batchgen.enumerate_projects x applicable decl styles
    pspec2_json(spec)

Pipeline steps (JSON-able)
    ['dep', module_suffix|None]   DependencyTransformation(suffix=SUFFIX, module_suffix=...)
    ['wrap']                      ModuleWrapTransformation(module_suffix=MODSUFFIX)
    ['dup', name, subgraph]       DuplicateKernel(duplicate_kernels=(name,), duplicate_suffix=DUPSUFFIX, duplicate_subgraph=..)
    ['rem', name]                 RemoveKernel(remove_kernels=(name,))
    make_step(step) -> Transformation            step_toml(step, tag) -> (name, toml table text)
    step_label(step)

Reading Fortran text (harness side)
    read_program(files: {name: text}) -> Program
        .subs      {(module|None, name): Sub(name, module, file, calls, uses, interfaces, markers)}
        .modules   {name: Mod(name, file, uses, subs)}
        .defs      {(module|None, name): [files]}   (duplicates are kept: a name defined twice is reported by .duplicates())
        .resolve(sub, callee_name) -> (module|None, name) | None      Fortran name resolution of a CALL
        .unresolved() -> [(file, unit, what)]   every CALL / USE / ONLY-name / INTERFACE body that has no definition
        .reachable(root_key) -> ordered list of sub keys reachable through CALLs
        .files_needed(root_key) -> files that define what is reachable (modules included)
    markers_of(text) -> set of kernel markers `<name>` written by the procedures in `text`
    item_name(key) -> 'module#name' | '#name'

Build
    link_and_run(files_in_order: [(name, text)], driver_text, workdir) -> dict(ok, stage, out, err)
    compile_order(program, files) -> file names, module providers first

TOML
    toml_dump(dict) -> text   (strings, bools, ints, lists of strings, nested tables: what SchedulerConfig.from_file needs)
"""
import collections
import re
from pathlib import Path

from vf import batchgen as bg

DECLS = ('implicit', 'intfb')
SUFFIX = '_x'
MODSUFFIX = '_mod'
DUPSUFFIX = '_dup'


# ----------------------------------------------------------------------------- projects
def pspec2_json(spec):
    s = bg.pspec_json(spec)
    s['decl'] = spec.get('decl', 'implicit')
    return s


def _intfb_block(indent, callee):
    i = indent
    return [f'{i}interface', f'{i}  subroutine {callee}(n)', f'{i}    integer, intent(inout) :: n',
            f'{i}  end subroutine {callee}', f'{i}end interface']


def build_project2(spec):
    decl = spec.get('decl', 'implicit')
    p = bg.build_project({k: v for k, v in spec.items() if k != 'decl'})
    if p is None or decl == 'implicit':
        if p is not None:
            p.decl = 'implicit'
        return p
    if decl != 'intfb':
        return None
    touched = False
    for pr in p.procs:
        free_callees = [j for j in pr.calls if p.procs[j].modkey is None]
        if not free_callees:
            continue
        text = p.files[pr.file]
        lines = text.split('\n')
        # header of procedure pr, then the first IMPLICIT NONE after it
        hdr = None
        for k, ln in enumerate(lines):
            if re.match(rf'(?i)^\s*(?:recursive\s+)?subroutine\s+{re.escape(pr.name)}\s*\(', ln):
                hdr = k
                break
        if hdr is None:
            return None
        imp = next((k for k in range(hdr, len(lines)) if lines[k].strip().lower() == 'implicit none'), None)
        if imp is None:
            return None
        indent = re.match(r'\s*', lines[imp]).group(0)
        block = []
        for j in free_callees:
            block += _intfb_block(indent, p.procs[j].name)
        lines[imp + 1:imp + 1] = block
        p.files[pr.file] = '\n'.join(lines)
        touched = True
    if not touched:
        return None
    p.decl = 'intfb'
    _dk = p.dedupe_key
    p.dedupe_key = lambda: 'intfb:' + _dk()
    return p


def enumerate_projects2(nmax, names=0, decls=DECLS, layouts=None, imps=None, feature_budget=0, nmin=1):
    for s in bg.enumerate_projects(nmax, layouts=layouts, imps=imps, feature_budget=feature_budget, names=names, nmin=nmin):
        for d in decls:
            s2 = dict(s, decl=d)
            if d == 'implicit' or build_project2(s2) is not None:
                yield s2


def layout_class(pspec):
    """Coarse shape of the file layout (what a root cause can depend on): several units per file or module?
    kernels in modules / free-standing / both?  root in a module?"""
    import collections as _c
    prj = build_project2(pspec)
    per_file = _c.Counter(pr.file for pr in prj.procs)
    per_mod = _c.Counter(pr.module for pr in prj.procs if pr.module)
    multi = 'multi' if (max(per_file.values()) > 1 or (per_mod and max(per_mod.values()) > 1)) else 'single'
    kmods = [pr.module is not None for pr in prj.procs[1:]]
    kern = 'kmod' if kmods and all(kmods) else ('kfree' if not any(kmods) else 'kmix')
    return f'{multi}/{kern}/{"rootmod" if prj.procs[0].module else "rootfree"}'


# ----------------------------------------------------------------------------- pipeline steps
def make_step(step):
    from loki.transformations.build_system import DependencyTransformation, ModuleWrapTransformation
    from loki.transformations.dependency import DuplicateKernel, RemoveKernel
    kind = step[0]
    if kind == 'dep':
        return DependencyTransformation(suffix=SUFFIX, module_suffix=step[1])
    if kind == 'wrap':
        return ModuleWrapTransformation(module_suffix=MODSUFFIX)
    if kind == 'dup':
        return DuplicateKernel(duplicate_kernels=(step[1],), duplicate_suffix=DUPSUFFIX, duplicate_subgraph=bool(step[2]))
    if kind == 'rem':
        return RemoveKernel(remove_kernels=(step[1],))
    raise KeyError(kind)


def step_label(step):
    kind = step[0]
    if kind == 'dep':
        return 'dep+modsuffix' if step[1] else 'dep'
    if kind == 'dup':
        return 'dup+subgraph' if step[2] else 'dup'
    return kind


def step_toml(step, tag):
    """-> (transformation name, dict for the `transformations` table of a scheduler config file)"""
    kind = step[0]
    name = f'T{tag}_{kind}'
    if kind == 'dep':
        opts = dict(suffix=SUFFIX)
        if step[1]:
            opts['module_suffix'] = step[1]
        return name, dict(classname='DependencyTransformation', module='loki.transformations.build_system', options=opts)
    if kind == 'wrap':
        return name, dict(classname='ModuleWrapTransformation', module='loki.transformations.build_system',
                          options=dict(module_suffix=MODSUFFIX))
    if kind == 'dup':
        return name, dict(classname='DuplicateKernel', module='loki.transformations.dependency',
                          options=dict(duplicate_kernels=[step[1]], duplicate_suffix=DUPSUFFIX, duplicate_subgraph=bool(step[2])))
    if kind == 'rem':
        return name, dict(classname='RemoveKernel', module='loki.transformations.dependency',
                          options=dict(remove_kernels=[step[1]]))
    raise KeyError(kind)


# ----------------------------------------------------------------------------- TOML
def _toml_val(v):
    if isinstance(v, bool):
        return 'true' if v else 'false'
    if isinstance(v, int):
        return str(v)
    if isinstance(v, str):
        return '"' + v.replace('\\', '\\\\').replace('"', '\\"') + '"'
    if isinstance(v, (list, tuple)):
        return '[' + ', '.join(_toml_val(x) for x in v) + ']'
    raise TypeError(f'toml: {v!r}')


def toml_dump(d):
    out = []

    def key(k):
        return k if re.fullmatch(r'[A-Za-z0-9_\-]+', k) else _toml_val(k)

    def table(path, t):
        scalars = [(k, v) for k, v in t.items() if not isinstance(v, dict)]
        subs = [(k, v) for k, v in t.items() if isinstance(v, dict)]
        if path and (scalars or not subs):
            out.append('[' + '.'.join(key(p) for p in path) + ']')
        for k, v in scalars:
            out.append(f'{key(k)} = {_toml_val(v)}')
        if path and (scalars or not subs):
            out.append('')
        for k, v in subs:
            table(path + [k], v)
    table([], d)
    return '\n'.join(out) + '\n'


# ----------------------------------------------------------------------------- reading Fortran text
Sub = collections.namedtuple('Sub', 'name module file calls uses interfaces markers')
Mod = collections.namedtuple('Mod', 'name file uses subs')

_RE_MARK = re.compile(r"'<([A-Za-z0-9_]+)>'")
_RE_USE = re.compile(r'(?i)^use\s*(?:,\s*(non_intrinsic|intrinsic)\s*)?(?:::)?\s*([a-z0-9_]+)\s*(?:,\s*only\s*:\s*(.*))?$')
_RE_CALL = re.compile(r'(?i)^(?:if\s*\(.*?\)\s*)?call\s+([a-z0-9_%]+)')


def markers_of(text):
    return set(_RE_MARK.findall(text))


def item_name(key):
    return f'{key[0] or ""}#{key[1]}'


def _logical_lines(text):
    buf = ''
    for raw in text.split('\n'):
        ln = raw.split('!')[0].rstrip() if "'" not in raw else raw.rstrip()
        s = ln.strip()
        if not s:
            continue
        if s.startswith('#'):
            yield s
            continue
        if s.startswith('&'):
            s = s[1:].lstrip()
        if s.endswith('&'):
            buf += s[:-1].rstrip() + ' '
            continue
        yield buf + s
        buf = ''
    if buf:
        yield buf


def _parse_use(s):
    m = _RE_USE.match(s)
    if not m:
        return None
    nature, mod, only = m.group(1), m.group(2).lower(), m.group(3)
    if nature and nature.lower() == 'intrinsic':
        return None
    if only is None:
        return (mod, None)
    pairs = []
    for part in only.split(','):
        part = part.strip()
        if not part:
            continue
        if '=>' in part:
            loc, rem = [x.strip().lower() for x in part.split('=>')]
        else:
            loc = rem = part.lower()
        pairs.append((loc, rem))
    return (mod, pairs)


class Program:
    def __init__(self):
        self.subs = {}
        self.modules = {}
        self.defs = collections.defaultdict(list)
        self.moddefs = collections.defaultdict(list)
        self.problems = []

    # -- name resolution (Fortran rules for what these programs contain) --
    def _imports(self, sub):
        uses = list(sub.uses)
        if sub.module and sub.module in self.modules:
            uses += list(self.modules[sub.module].uses)
        return uses

    def resolve(self, sub, callee):
        callee = callee.lower()
        for mod, only in self._imports(sub):
            if only is not None:
                for loc, rem in only:
                    if loc == callee:
                        return (mod, rem)
        for mod, only in self._imports(sub):
            if only is None and mod in self.modules and callee in self.modules[mod].subs:
                return (mod, callee)
        if sub.module and (sub.module, callee) in self.subs:
            return (sub.module, callee)
        return (None, callee)

    def unresolved(self):
        out = []
        for key, sub in self.subs.items():
            for mod, only in sub.uses:
                if mod not in self.modules:
                    out.append((sub.file, item_name(key), f'USE {mod}: no such module in the output'))
                elif only is not None:
                    for loc, rem in only:
                        if rem not in self.modules[mod].subs and not rem.startswith('mv_') and not rem.startswith('ty_') \
                                and not rem.startswith('gen_'):
                            out.append((sub.file, item_name(key), f'USE {mod}, ONLY: {rem}: module does not define it'))
            for c in sub.calls:
                if '%' in c:
                    continue
                tgt = self.resolve(sub, c)
                if tgt not in self.subs:
                    out.append((sub.file, item_name(key), f'CALL {c}: no definition of {item_name(tgt)} in the output'))
            for i in sub.interfaces:
                if (None, i) not in self.subs:
                    out.append((sub.file, item_name(key), f'INTERFACE body {i}: no free-standing procedure of that name in the output'))
        for name, m in self.modules.items():
            for mod, only in m.uses:
                if mod not in self.modules:
                    out.append((m.file, name, f'USE {mod}: no such module in the output'))
        return out

    def duplicates(self):
        out = [(item_name(k), sorted(f)) for k, f in self.defs.items() if len(f) > 1 and k[0] is None]
        out += [(k, sorted(f)) for k, f in self.moddefs.items() if len(f) > 1]
        return out

    def reachable(self, root):
        seen, order = set(), []

        def visit(k):
            if k in seen or k not in self.subs:
                return
            seen.add(k)
            order.append(k)
            for c in self.subs[k].calls:
                if '%' not in c:
                    visit(self.resolve(self.subs[k], c))
        visit(root)
        return order

    def files_needed(self, root):
        files, mods_seen = [], set()

        def add(f):
            if f not in files:
                files.append(f)

        def addmod(m):
            if m in mods_seen or m not in self.modules:
                return
            mods_seen.add(m)
            add(self.modules[m].file)
            for mm, _ in self.modules[m].uses:
                addmod(mm)
            # everything in the module is compiled with it
            for s in self.modules[m].subs:
                walk((m, s))
        seen = set()

        def walk(k):
            if k in seen or k not in self.subs:
                return
            seen.add(k)
            sub = self.subs[k]
            add(sub.file)
            if sub.module:
                addmod(sub.module)
            for mm, _ in sub.uses:
                addmod(mm)
            for c in sub.calls:
                if '%' not in c:
                    walk(self.resolve(sub, c))
        walk(root)
        # free-standing procedures that share a file with something needed are compiled too
        changed = True
        while changed:
            changed = False
            for k, sub in self.subs.items():
                if sub.file in files and k not in seen:
                    walk(k)
                    changed = True
            for m, mod in self.modules.items():
                if mod.file in files and m not in mods_seen:
                    addmod(m)
                    changed = True
        return files


def read_program(files):
    prog = Program()
    for fname in sorted(files):
        text = files[fname]
        mod = None         # current module name
        mod_uses = None
        cur = None         # current subroutine being read: dict
        in_intf = 0
        intf_sub = 0
        contains = False
        for s in _logical_lines(text):
            low = s.lower()
            if in_intf:
                if re.match(r'^end\s*interface', low):
                    in_intf -= 1
                    continue
                m = re.match(r'^(?:recursive\s+)?subroutine\s+([a-z0-9_]+)', low)
                if m and not low.startswith('end'):
                    if cur is not None:
                        cur['interfaces'].append(m.group(1))
                    intf_sub += 1
                    continue
                if re.match(r'^end\s*subroutine', low):
                    intf_sub -= 1
                    continue
                if re.match(r'^module\s+procedure', low):
                    continue
                continue
            if re.match(r'^(?:abstract\s+)?interface\b', low):
                in_intf += 1
                continue
            m = re.match(r'^module\s+([a-z0-9_]+)\s*$', low)
            if m and not low.startswith('module procedure'):
                mod = m.group(1)
                mod_uses = []
                prog.modules[mod] = Mod(mod, fname, mod_uses, [])
                prog.moddefs[mod].append(fname)
                contains = False
                continue
            if re.match(r'^end\s*module', low):
                mod = None
                mod_uses = None
                continue
            m = re.match(r'^(?:recursive\s+)?subroutine\s+([a-z0-9_]+)', low)
            if m:
                cur = dict(name=m.group(1), module=mod, file=fname, calls=[], uses=[], interfaces=[], markers=[])
                continue
            if re.match(r'^end\s*subroutine', low):
                if cur is not None:
                    key = (cur['module'], cur['name'])
                    prog.defs[key].append(fname)
                    if key not in prog.subs:
                        prog.subs[key] = Sub(cur['name'], cur['module'], fname, cur['calls'], cur['uses'],
                                             cur['interfaces'], cur['markers'])
                    if cur['module']:
                        prog.modules[cur['module']].subs.append(cur['name'])
                cur = None
                continue
            if low == 'contains':
                contains = True
                continue
            if low.startswith('use'):
                u = _parse_use(s)
                if u is not None:
                    (cur['uses'] if cur is not None else (mod_uses if mod_uses is not None else [])).append(u)
                continue
            if cur is not None:
                m = _RE_CALL.match(s)
                if m:
                    cur['calls'].append(m.group(1).lower())
                    continue
                mk = _RE_MARK.findall(s)
                if mk:
                    cur['markers'] += mk
    return prog


# ----------------------------------------------------------------------------- build
def compile_order(program, files):
    """Order `files` so that module providers come before their users."""
    provides = collections.defaultdict(set)
    needs = collections.defaultdict(set)
    for name, m in program.modules.items():
        provides[m.file].add(name)
        for mm, _ in m.uses:
            needs[m.file].add(mm)
    for key, sub in program.subs.items():
        for mm, _ in sub.uses:
            needs[sub.file].add(mm)
    provider = {m: f for f, ms in provides.items() for m in ms}
    order, seen = [], set()

    def visit(f, stack=()):
        if f in seen or f in stack:
            return
        for m in sorted(needs[f]):
            pf = provider.get(m)
            if pf and pf != f and pf in files:
                visit(pf, stack + (f,))
        seen.add(f)
        order.append(f)
    for f in sorted(files):
        visit(f)
    return order


def link_and_run(sources, workdir, timeout=60):
    """sources: [(file name, text)] in compile order, the driver PROGRAM last.  -> dict(ok, stage, out, err)"""
    from vf import gf
    with gf.Build(base=workdir, prefix='b2_') as b:
        # one translation unit (providers first): one compiler process instead of one per file
        text = ''.join(f'! ---- {name}\n{text.rstrip()}\n' for name, text in sources)
        b.write('all.f90', text)
        ok, err = b.fcompile(['all.f90'])
        if not ok:
            return dict(ok=False, stage='compile', out='', err=err)
        rc, out, err = b.run(['./a.out'], timeout=timeout)
        return dict(ok=rc == 0, stage='run', rc=rc, out=out, err=err)


# ----------------------------------------------------------------------------- self-test
def root_key(project):
    p0 = project.procs[0]
    return (p0.module, p0.name)


def _selftest_one(spec):
    p = build_project2(spec)
    prog = read_program(p.files)
    bad = prog.unresolved()
    if bad:
        return f'{spec}: reader finds unresolved references in an original project: {bad[:2]}'
    want, seen = [], set()

    def walk(i):
        if i in seen:
            return
        seen.add(i)
        want.append((p.procs[i].module, p.procs[i].name))
        for j in p.procs[i].calls:
            walk(j)
    walk(0)
    got = prog.reachable(root_key(p))
    if got != want:
        return f'{spec}: reader reaches {got}, ground truth {want}'
    files = prog.files_needed(root_key(p))
    src = [(f, p.files[f]) for f in compile_order(prog, files)]
    if p.stub_external():
        src.append(('zz_ext_stub.f90', p.stub_external()))
    r = link_and_run(src + [('zz_main.f90', p.driver_program())], None)
    got = [ln.strip() for ln in r['out'].splitlines() if ln.strip()]
    if not r['ok'] or got != p.simulate():
        return f'{spec}: build of the needed files {files}: {r["stage"]} ok={r["ok"]} out={got} err={r["err"][-300:]}'
    return None


def selftest(nmax=3, nproc=8):
    import multiprocessing as mp
    specs = list(enumerate_projects2(nmax))
    with mp.get_context('fork').Pool(nproc) as pool:
        res = pool.map(_selftest_one, specs, chunksize=4)
    bad = [r for r in res if r]
    nint = sum(1 for s in specs if s['decl'] == 'intfb')
    print(f'batchgen2 selftest: {len(specs)} projects ({nint} with interface blocks), {len(bad)} rejected')
    for r in bad[:10]:
        print('  ', r)
    return bad


if __name__ == '__main__':
    import sys
    sys.exit(1 if selftest(int(sys.argv[1]) if len(sys.argv) > 1 else 3) else 0)
