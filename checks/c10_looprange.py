"""C10  Loop-range helpers match Fortran DO-loop iteration semantics.

ENUM: every (start, stop, step) of a grid, every representation of negative literals,
literal and symbolic bounds.  Oracle: reference DO semantics (F2008 8.1.6.6.1), itself
validated against one gfortran program that prints the visits of the whole grid.
"""
import itertools

from vf import gf
from vf.exprsem import treeeval, Undefined, Unsupported

PROPERTY = 'C10'
LEVEL = 'exploration'
META = dict(
    engine='enum',
    technique='bounded-exhaustive enumeration of (start, stop, step) x literal spellings; gfortran-validated reference DO semantics',
    level_text='every integer (start, stop, step) of the grid, every IR spelling of negative literals, literal and symbolic '
               'bounds: get_pyrange, num_iterations, normalized, iteration_number, iteration_index agree with the DO-loop '
               'visit sequence; exhaustive for the stated grid',
    level_note='reference DO semantics validated against gfortran on the same grid in every run; helper expressions are '
               'evaluated by the harness evaluator (truncating integer division)',
)


def do_visits(start, stop, step):
    step = 1 if step is None else step
    n = max(0, int((stop - start + step) / step)) if False else None
    # trip count = MAX(INT((m2 - m1 + m3) / m3), 0) with truncating division
    num = stop - start + step
    q = abs(num) // abs(step)
    if (num < 0) != (step < 0):
        q = -q
    n = max(q, 0)
    return [start + k * step for k in range(n)]


def grid(ctx):
    lo, hi = (-4, 6) if ctx.quick else (-7, 9)
    steps = [None, 1, -1, 2, -2, 3, -3] if ctx.quick else [None, 1, -1, 2, -2, 3, -3, 4, -4, 5, -7]
    return list(range(lo, hi + 1)), steps


def lit_reprs(v):
    """All IR representations of an integer literal."""
    from loki.expression import symbols as sym
    if v is None:
        return [('none', None)]
    if v >= 0:
        return [('lit', sym.IntLiteral(v))]
    return [('neglit', sym.IntLiteral(v)),
            ('prod', sym.Product((-1, sym.IntLiteral(-v))))]


def build_range(spec):
    """spec = dict(start=, stop=, step=, reprs=(r0,r1,r2), symbolic=bool)"""
    from loki.expression import symbols as sym
    s, e, st = spec['start'], spec['stop'], spec['step']
    if spec.get('symbolic'):
        parts = [sym.Variable(name='n1'), sym.Variable(name='n2')]
        if st is not None:
            parts.append(sym.Variable(name='n3'))
        env = {'n1': s, 'n2': e, 'n3': st}
        return sym.LoopRange(tuple(parts)), env

    def mk(v, kind):
        for k, node in lit_reprs(v):
            if k == kind:
                return node
        raise KeyError(kind)
    r = spec['reprs']
    parts = [mk(s, r[0]), mk(e, r[1])]
    if st is not None:
        parts.append(mk(st, r[2]))
    return sym.LoopRange(tuple(parts)), {}


def check_case(spec):
    """Returns list of (signature, detail); empty if the property holds on this case."""
    from loki.expression import symbols as sym
    from loki.expression.symbolic import get_pyrange, iteration_number, iteration_index
    s, e, st = spec['start'], spec['stop'], spec['step']
    ref = do_visits(s, e, st)
    out = []
    rng, env = build_range(spec)
    sgn = 'none' if st is None else ('pos' if st > 0 else 'neg')
    tag = ('symbolic' if spec.get('symbolic') else 'literal:' + '/'.join(spec['reprs']))
    if not spec.get('symbolic'):
        try:
            got = list(get_pyrange(rng))
        except Exception as ex:  # pylint: disable=broad-except
            got = f'{type(ex).__name__}: {ex}'
        if got != ref:
            kind = 'empty' if not ref else ('extra' if isinstance(got, list) and len(got) > len(ref)
                                            else 'missing' if isinstance(got, list) and len(got) < len(ref)
                                            else 'wrong')
            out.append((f'get_pyrange step={sgn} kind={kind}',
                        f'get_pyrange({s},{e},{st}) = {got}, DO visits {ref}'))
    if ref:
        n = len(ref)

        def ev(expr, extra=None):
            envx = dict(env)
            if extra:
                envx.update(extra)
            try:
                return treeeval(expr, envx)
            except (Undefined, Unsupported) as ex:
                return f'{type(ex).__name__}: {ex}'
        got = ev(rng.num_iterations)
        if got != n:
            out.append((f'num_iterations step={sgn} repr={tag}',
                        f'num_iterations({s},{e},{st}) evaluates to {got}, trip count {n}'))
        nr = rng.normalized
        gs, ge, gst = ev(nr.start), ev(nr.stop), (1 if nr.step is None else ev(nr.step))
        if (gs, ge, gst) != (1, n, 1):
            out.append((f'normalized step={sgn} repr={tag}',
                        f'normalized({s},{e},{st}) = ({gs},{ge},{gst}), expected (1,{n},1)'))
        for k, idx in enumerate(ref, start=1):
            for form in ('lit', 'var'):
                if form == 'lit':
                    if idx < 0:
                        iexpr = sym.Product((-1, sym.IntLiteral(-idx)))
                    else:
                        iexpr = sym.IntLiteral(idx)
                    kexpr = sym.IntLiteral(k)
                    extra = None
                else:
                    iexpr, kexpr = sym.Variable(name='jidx'), sym.Variable(name='jnum')
                    extra = {'jidx': idx, 'jnum': k}
                try:
                    got = ev(iteration_number(iexpr, rng), extra)
                except Exception as ex:  # pylint: disable=broad-except
                    got = f'{type(ex).__name__}: {ex}'
                if got != k:
                    out.append((f'iteration_number step={sgn} repr={tag} idx={form}',
                                f'iteration_number(idx={idx}, ({s},{e},{st})) evaluates to {got}, expected {k}'))
                try:
                    got = ev(iteration_index(kexpr, rng), extra)
                except Exception as ex:  # pylint: disable=broad-except
                    got = f'{type(ex).__name__}: {ex}'
                if got != idx:
                    out.append((f'iteration_index step={sgn} repr={tag} num={form}',
                                f'iteration_index(num={k}, ({s},{e},{st})) evaluates to {got}, expected {idx}'))
    # keep one (first) entry per signature for this case
    seen, res = set(), []
    for sig, det in out:
        if sig not in seen:
            seen.add(sig)
            res.append((sig, det))
    return res


def _work(spec):
    return spec, check_case(spec), len(do_visits(spec['start'], spec['stop'], spec['step']))


def enumerate_specs(ctx):
    vals, steps = grid(ctx)
    specs = []
    for s, e, st in itertools.product(vals, vals, steps):
        reprs = itertools.product([k for k, _ in lit_reprs(s)], [k for k, _ in lit_reprs(e)],
                                  [k for k, _ in lit_reprs(st)])
        for r in reprs:
            specs.append(dict(start=s, stop=e, step=st, reprs=list(r), symbolic=False))
        specs.append(dict(start=s, stop=e, step=st, reprs=[], symbolic=True))
    return specs


def validate_reference(ctx):
    """Reference DO semantics vs gfortran over the whole (start, stop, step) grid."""
    vals, steps = grid(ctx)
    stepvals = [s for s in steps if s is not None]
    src = f"""program p
  implicit none
  integer :: s, e, k, i
  integer, parameter :: steps({len(stepvals)}) = (/ {', '.join(str(x) for x in stepvals)} /)
  do s = {vals[0]}, {vals[-1]}
    do e = {vals[0]}, {vals[-1]}
      write(*,'(A,I0,1X,I0,1X,A)',advance='no') '#', s, e, 'N :'
      do i = s, e
        write(*,'(1X,I0)',advance='no') i
      end do
      write(*,*)
      do k = 1, {len(stepvals)}
        write(*,'(A,I0,1X,I0,1X,I0,A)',advance='no') '#', s, e, steps(k), ' :'
        do i = s, e, steps(k)
          write(*,'(1X,I0)',advance='no') i
        end do
        write(*,*)
      end do
    end do
  end do
end program p
"""
    r = gf.compile_and_run([('p.f90', src)], base=ctx.scratch)
    ctx.require(r['ok'], f'gfortran reference program failed: {r["err"][-300:]}')
    n = 0
    for line in r['out'].splitlines():
        if not line.startswith('#'):
            continue
        head, _, tail = line[1:].partition(':')
        h = head.split()
        s, e = int(h[0]), int(h[1])
        st = None if h[2] == 'N' else int(h[2])
        visits = [int(x) for x in tail.split()]
        ctx.require(visits == do_visits(s, e, st),
                    f'reference DO semantics disagree with gfortran on ({s},{e},{st}): '
                    f'{do_visits(s, e, st)} vs {visits}')
        n += 1
    return n


def run(ctx):
    nval = validate_reference(ctx)
    specs = enumerate_specs(ctx)
    from vf.explore import seeded_order
    specs = seeded_order(specs, ctx.seed)
    results = ctx.pmap(_work, specs)
    nontrivial = set()
    for spec, viols, ntrip in results:
        if ntrip >= 2:
            nontrivial.add((spec['start'], spec['stop'], spec['step'], tuple(spec['reprs']), spec['symbolic']))
        for sig, det in viols:
            ctx.violation(sig, spec, det)
    vals, steps = grid(ctx)
    ctx.cov.update(
        evaluations=len(specs), distinct_nontrivial=len(nontrivial), exhaustive=True,
        rule=f'every (start, stop, step) with start,stop in [{vals[0]},{vals[-1]}], step in {steps}; every '
             'combination of the two IR spellings of a negative literal (IntLiteral(-k), Product(-1,IntLiteral(k))) '
             'plus the symbolic form (bounds are variables bound by the same grid); non-trivial = loop with >= 2 trips',
        samples=[specs[0], specs[len(specs) // 2], specs[-1]],
        traces_validated_against_impl=nval,
        bound=dict(values=[vals[0], vals[-1]], steps=[str(s) for s in steps]),
    )
    ctx.assumptions += ['gfortran 12 DO-loop semantics are the ground truth for the reference enumeration',
                        'vf.exprsem.treeeval (truncating integer division) gives the value of helper expressions']


def replay(case):
    v = check_case(case)
    return '; '.join(f'[{s}] {d}' for s, d in v) if v else None
