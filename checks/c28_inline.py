"""C28  Inlining preserves program behaviour.

ENUM (deviation-bounded) + gfortran differential.  Five template kernels, one per inlining entry
point, each assembled from *feature blocks* (switches); a sixth template runs the
InlineTransformation option product on a kernel that has one instance of every inlinable thing.
Every combination of <= d blocks (d=1 quick, d=2 thorough) away from the base kernel x the
transformation variants of the template (all variants for <= 1 block, the PRIMARY ones for pairs; mark pairs
only where a mark-only block is involved, see PRIMARY) is
built twice with gfortran -O0 -fcheck=bounds (original / transformed) against the same harness-owned
driver PROGRAM (3 inputs: n=4,5,6, x=0.5,1,2, k=1,2,3) and the printed outputs (every dummy of the
kernel) are compared.  Builds go through vf.xfast.merged_build_run (the units of a case concatenated into one file,
one compiler process; results memoised by exact program text).  The variants of one program share one build of the original; a variant that leaves
the generated text byte-identical to the plain parse/fgen round trip is counted unchanged-ok without a
second build (that text is C01's business).  Exact dyadic reals, integer
division only where truncation is the point.  Recursion is excluded (property statement).

Templates and entry points
  int   inline_internal_procedures(kern[, allowed_aliases])         kern CONTAINS the callees
  mark  inline_marked_subroutines(kern, adjust_imports +-)           callees in util_mod, calls carry !$loki inline
  stmt  inline_statement_functions(kern)
  fn    inline_functions / inline_elemental_functions                functions in util_mod (+- ELEMENTAL prefix)
  const inline_constant_parameters(kern, external_only +-)           parameters in cmod
  all   InlineTransformation(**opts).apply(routine), leaves first   option product (quick: <= 1 option away from the
                                                                     defaults / from all-on; thorough: all 2^9 x aliases)
  and for every template above the family 'trafo' = InlineTransformation with the matching option switched on.
  int, mark and trafo are applied to every routine of the case, callees first (what the scheduler's reverse traversal
  does); stmt, fn, fnelem and const resolve nested references themselves and are applied to the kernel only.

Switch list (derived from the code; one block per branch/shortcut)
  map_call_to_procedure_body / _map_unbound_dims:  whole array; whole array with lower bound 0; assumed-shape dummy;
    section b(2:4); section of a lower-bound-0 array; open sections b(:3) b(2:); strided section; variable-bound section;
    element -> scalar dummy; dummy lower bound 0 / 2; 2-D column / sub-column / whole 2-D / 2-D dummy with lower bounds;
    whole-array, v(:), v(2:), v(:m-1) uses of the dummy in the callee; dummy passed on to a non-inlined call (3-layer);
    derived-type member actuals; case mismatch between declaration and use of the dummy (arg_vars compares .name);
    assumed-size dummy; sequence association (refusal, or resolved by resolve_sequence_association);
    expression actuals used under * / ** unary minus, binary minus, .not./.and. (substitution builds the trees of C06);
    negative literal actual; expression actual re-evaluated after one of its operands changed; element actual whose
    subscript variable is changed by the callee; actual whose subscript has the name of another dummy (recursive map update);
    dummy names that are the caller's names swapped; keyword / mixed keyword; OPTIONAL present / absent with PRESENT.
  inline_subroutine_calls:  callee local = caller local / caller dummy / differing in case; allowed_aliases;
    automatic array sized by a dummy / by an expression actual / by a caller local; two calls to one callee with different
    size actuals (ChainMap takes the first); callee-local PARAMETER; host-associated read/write (int); module variable and
    callee import (mark; only with adjust_imports, which is the documented way to get them); nested callee defined before / after its caller; not every call marked (mark);
    import at module level (mark); call inside loop / branch / one-line IF / ASSOCIATE; RETURN in the callee;
    ASSOCIATE inside the callee; !$loki routine pragma in the callee; member function (int).
  _inline_functions / inline_function_calls:  result inside a larger expression; twice in a statement; f(f(x)); f(g(x));
    in IF / ELSE IF / one-line IF condition; in the body of a one-line IF; in DO WHILE condition; in a loop bound; as
    actual of a call / of an intrinsic; as subscript; function with locals, early assignment and branch; RESULT clause;
    type prefix; in loop; lhs is the argument; expression actuals (* ** - and integer division); keyword; OPTIONAL;
    local clash; array result; intrinsic call next to / around a function reference;
    elemental called with arrays (skipped with a warning) alone and mixed with a scalar call; in ASSOCIATE; two statements;
    subscript name capture; RETURN; callee import; module variable.
  inline_statement_functions / InlineSubstitutionMapper:  expression actuals under * / ** -; nested statement functions
    (also under a product); two dummies, one actual a nested reference; host variable in the rhs; twice / nested self; in a
    condition; as actual; in loop; dummy also used as an ordinary variable; dummy named like a kernel dummy; unused
    statement function; array element actual; statement function calling a module function (mapper's function branch).
  inline_constant_parameters:  parameter in expression under * - / **; negative parameter; in a dimension; as a kind of
    a declaration and of a literal; literal kind inside an imported initialiser; shadowed by a local (module-level import);
    used in a member procedure; renamed import; parameter array; parameter defined by another parameter; local
    parameters, literal / expression initialiser / used as dimension (external_only=False); loop bound /
    CASE value; as actual argument; USE without ONLY; non-parameter imported next to parameters.

Weaker readings: an explicit refusal (NotImplementedError, error with "cannot/not supported") is counted, not a
violation; a warning followed by unchanged code (elemental function with array arguments) is fine; a warning followed by
wrong code is a violation.  Utilities are judged on their own output (no dead-code removal added by the harness);
the 'trafo' family of the five entry-point templates keeps remove_dead_code=True, so a finding that only exists without
dead-code removal is visible as such in its signature (xform=int/mark/fn, not xform=trafo); only the option product of the
all-in-one kernel (xform=trafo-all) switches dead-code removal off.
"""
import itertools

from vf import xform, xfast
from vf.explore import deviations, seeded_order

PROPERTY = 'C28'
LEVEL = 'exploration'
META = dict(
    engine='enum',
    technique='deviation-bounded exhaustive template enumeration x all inlining entry points/options; gfortran differential run (original vs transformed)',
    level_text='six templates (internal procedures, marked subroutines, statement functions, functions, constant parameters, '
               'InlineTransformation option product): all combinations of <= d feature blocks x every variant: transformed '
               'code compiles and prints exactly the original output on every input; exhaustive for d',
    level_note='gfortran 12 -O0 -fcheck=bounds is the semantics; exact dyadic reals so no tolerance; original program must build (else HARNESS-ERROR); recursion excluded',
)

# ------------------------------------------------------------------------------------------------ fixed text
UTIL_HEAD = '''module util_mod
  implicit none
  type :: tt
    real :: x
    real :: v(4)
    integer :: m
  end type tt
  real :: gscale = 2.0
contains
  subroutine ext_scale(m, v)
    integer, intent(in) :: m
    real, intent(inout) :: v(m)
    v(1:m) = v(1:m) * 2.0
  end subroutine ext_scale
  subroutine addint(p, q)
    integer, intent(in) :: p
    integer, intent(inout) :: q
    q = q + p
  end subroutine addint
'''
UTIL_TAIL = '''end module util_mod
'''
ADDSC = '''  subroutine addsc(p, q)
    real, intent(in) :: p
    real, intent(inout) :: q
    q = q + p * 2.0
  end subroutine addsc
'''
CMOD = '''module cmod
  implicit none
  integer, parameter :: rk = 4
  integer, parameter :: c1 = 3
  integer, parameter :: c2 = 2 * c1 + 1
  integer, parameter :: c7 = 7
  integer, parameter :: cneg = -2
  real, parameter :: half = 0.5
  real(kind=rk), parameter :: quart = 0.25_rk
  integer, parameter :: carr(3) = (/ 1, 2, 3 /)
  real :: gvar = 1.0
end module cmod
'''
KERN_DECL = '''    implicit none
    integer, intent(in) :: n
    real, intent(inout) :: a(0:n), b(n), m2(n, 3)
    type(tt), intent(inout) :: t
    real, intent(inout) :: x, r
    integer, intent(inout) :: k
    integer :: i, j, ia
    real :: loc
'''
KERN_INIT = '''    loc = 1.0
    i = 1
    j = 2
    ia = 0
'''
KERN_END = '''    r = r + loc
    k = k + i + j
'''

DRIVER = '''program drv
  use util_mod, only: tt
  use kmod, only: kern
  implicit none
  integer :: n, g, e, k
  real, allocatable :: a(:), b(:), m2(:, :)
  type(tt) :: t
  real :: x, r
  do g = 1, 3
    n = 3 + g
    allocate(a(0:n), b(n), m2(n, 3))
    do e = 0, n
      a(e) = real(e) * 0.5 - 1.0
    end do
    do e = 1, n
      b(e) = real(mod(e * g, 4)) * 0.25 + 1.0
      m2(e, 1) = real(e)
      m2(e, 2) = real(e) * 0.5
      m2(e, 3) = 2.0 - real(e) * 0.25
    end do
    t%x = 0.5 * real(g)
    t%v = (/ 0.5, 1.5, -1.0, 2.0 /)
    t%m = g
    x = 2.0 ** (g - 2)
    r = real(g) - 0.5
    k = g
    call kern(n, a, b, m2, t, x, r, k)
    write(*,'(A,I0)') 'G', g
    write(*,'(A,20(1X,ES14.7))') 'A', a
    write(*,'(A,20(1X,ES14.7))') 'B', b
    write(*,'(A,20(1X,ES14.7))') 'M', m2
    write(*,'(A,20(1X,ES14.7))') 'T', t%x, t%v
    write(*,'(A,I0)') 'TM', t%m
    write(*,'(A,2(1X,ES14.7))') 'XR', x, r
    write(*,'(A,I0)') 'K', k
    deallocate(a, b, m2)
  end do
end program drv
'''


def B(body, callees='', names=(), decl='', only=None, imports='', stmt='', cimports=()):
    """A feature block: statements for the kernel body, callee procedures, their names (imported by the
    kernel in the module templates), extra kernel declarations, templates it is restricted to, extra
    USE lines of the kernel, statement-function definitions, symbols needed from cmod."""
    return dict(body=body, callees=callees, names=tuple(names), decl=decl, only=only, imports=imports,
                stmt=stmt, cimports=tuple(cimports))


# ------------------------------------------------------------------------------------------------ subroutine blocks
# `!@INL` becomes `!$loki inline` in the mark template and disappears in the int template.
P_BLOCKS = {
    'base': B('''    !@INL
    call addsc(x, r)
''', ADDSC, ['addsc']),
    'whole_array': B('''    !@INL
    call sc1(n, b)
''', '''  subroutine sc1(m, v)
    integer, intent(in) :: m
    real, intent(inout) :: v(m)
    integer :: jj
    do jj = 1, m
      v(jj) = v(jj) * 2.0 + real(jj)
    end do
  end subroutine sc1
''', ['sc1']),
    'whole_array_lb0': B('''    !@INL
    call sc2(n + 1, a)
''', '''  subroutine sc2(m, v)
    integer, intent(in) :: m
    real, intent(inout) :: v(m)
    integer :: jj
    do jj = 1, m
      v(jj) = v(jj) * 2.0 + real(jj)
    end do
    v(1) = v(m) + 1.0
  end subroutine sc2
''', ['sc2']),
    'assumed_shape': B('''    !@INL
    call sc3(b)
''', '''  subroutine sc3(v)
    real, intent(inout) :: v(:)
    integer :: jj
    do jj = 1, size(v)
      v(jj) = v(jj) + real(jj)
    end do
  end subroutine sc3
''', ['sc3']),
    'assumed_shape_lb0': B('''    !@INL
    call sc3z(a)
''', '''  subroutine sc3z(v)
    real, intent(inout) :: v(:)
    integer :: jj
    do jj = 1, size(v)
      v(jj) = v(jj) + real(jj)
    end do
    v(1) = v(1) * 2.0
  end subroutine sc3z
''', ['sc3z']),
    'section': B('''    !@INL
    call sc4(3, b(2:4))
''', '''  subroutine sc4(m, v)
    integer, intent(in) :: m
    real, intent(inout) :: v(m)
    integer :: jj
    do jj = 1, m
      v(jj) = v(jj) * 2.0 + real(jj)
    end do
    v(1) = v(m) - 0.5
  end subroutine sc4
''', ['sc4']),
    'section_lb0': B('''    !@INL
    call sc5(3, a(0:2))
    !@INL
    call sc5(2, a(2:3))
''', '''  subroutine sc5(m, v)
    integer, intent(in) :: m
    real, intent(inout) :: v(m)
    integer :: jj
    do jj = 1, m
      v(jj) = v(jj) * 2.0 + real(jj)
    end do
  end subroutine sc5
''', ['sc5']),
    'section_open': B('''    !@INL
    call sc6(3, b(:3))
    !@INL
    call sc6(n - 1, b(2:))
''', '''  subroutine sc6(m, v)
    integer, intent(in) :: m
    real, intent(inout) :: v(m)
    integer :: jj
    do jj = 1, m
      v(jj) = v(jj) * 2.0 + real(jj)
    end do
  end subroutine sc6
''', ['sc6']),
    'section_stride': B('''    !@INL
    call sc7(2, b(1:3:2))
''', '''  subroutine sc7(m, v)
    integer, intent(in) :: m
    real, intent(inout) :: v(m)
    integer :: jj
    do jj = 1, m
      v(jj) = v(jj) * 2.0 + real(jj)
    end do
  end subroutine sc7
''', ['sc7']),
    'section_varbound': B('''    !@INL
    call sc8(2, b(k:k + 1))
''', '''  subroutine sc8(m, v)
    integer, intent(in) :: m
    real, intent(inout) :: v(m)
    integer :: jj
    do jj = 1, m
      v(jj) = v(jj) * 2.0 + real(jj)
    end do
  end subroutine sc8
''', ['sc8']),
    'elem_to_scalar': B('''    !@INL
    call addsc(b(2), r)
    !@INL
    call addsc(x, b(k))
    !@INL
    call addsc(a(k - 1), m2(k + 1, 2))
'''),
    'dummy_lb0': B('''    !@INL
    call sc9(3, b(2:4))
    !@INL
    call sc9(n, b)
''', '''  subroutine sc9(m, v)
    integer, intent(in) :: m
    real, intent(inout) :: v(0:m - 1)
    integer :: jj
    do jj = 0, m - 1
      v(jj) = v(jj) * 2.0 + real(jj)
    end do
    v(0) = v(m - 1) + 0.5
  end subroutine sc9
''', ['sc9']),
    'dummy_lb2': B('''    !@INL
    call sc10(n + 1, a)
    !@INL
    call sc10(2, a(1:2))
''', '''  subroutine sc10(m, v)
    integer, intent(in) :: m
    real, intent(inout) :: v(2:m + 1)
    integer :: jj
    do jj = 2, m + 1
      v(jj) = v(jj) * 2.0 + real(jj)
    end do
    v(2) = v(m + 1) + 0.5
  end subroutine sc10
''', ['sc10']),
    'two_d_column': B('''    !@INL
    call sc11(n, m2(:, 2))
    !@INL
    call sc11(n - 1, m2(2:n, 3))
''', '''  subroutine sc11(m, v)
    integer, intent(in) :: m
    real, intent(inout) :: v(m)
    integer :: jj
    do jj = 1, m
      v(jj) = v(jj) * 2.0 + real(jj)
    end do
  end subroutine sc11
''', ['sc11']),
    'two_d_whole': B('''    !@INL
    call sc12(n, m2)
''', '''  subroutine sc12(m, w)
    integer, intent(in) :: m
    real, intent(inout) :: w(m, 3)
    integer :: jj
    do jj = 1, m
      w(jj, 2) = w(jj, 1) * 2.0 + w(jj, 3)
    end do
    w(1, 3) = w(m, 1)
  end subroutine sc12
''', ['sc12']),
    'two_d_dummy_lb': B('''    !@INL
    call sc13(n, m2)
''', '''  subroutine sc13(m, w)
    integer, intent(in) :: m
    real, intent(inout) :: w(0:m - 1, 0:2)
    integer :: jj
    do jj = 0, m - 1
      w(jj, 1) = w(jj, 0) * 2.0 + w(jj, 2)
    end do
    w(0, 2) = w(m - 1, 0)
  end subroutine sc13
''', ['sc13']),
    'whole_in_callee': B('''    !@INL
    call sc14(3, b(2:4))
    !@INL
    call sc14(n + 1, a)
''', '''  subroutine sc14(m, v)
    integer, intent(in) :: m
    real, intent(inout) :: v(m)
    v = v * 2.0
    v(:) = v(:) + 1.0
    v(1) = sum(v) + v(ubound(v, 1)) + v(lbound(v, 1))
  end subroutine sc14
''', ['sc14']),
    'open_range_in_callee': B('''    !@INL
    call sc14o(3, b(2:4))
    !@INL
    call sc14o(n + 1, a)
''', '''  subroutine sc14o(m, v)
    integer, intent(in) :: m
    real, intent(inout) :: v(m)
    v(2:) = v(:m - 1) + 0.5
  end subroutine sc14o
''', ['sc14o']),
    'pass_on': B('''    !@INL
    call sc15(n, a)
    !@INL
    call sc15(2, b(2:4))
''', '''  subroutine sc15(m, v)
    integer, intent(in) :: m
    real, intent(inout) :: v(1:m + 1)
    v(1) = v(1) + 1.0
    call ext_scale(m, v(1:m))
    call ext_scale(2, v(2:m + 1))
  end subroutine sc15
''', ['sc15']),
    'derived_member': B('''    !@INL
    call addsc(t%x, r)
    !@INL
    call sc16(4, t%v)
    !@INL
    call sc16(2, t%v(2:3))
''', '''  subroutine sc16(m, v)
    integer, intent(in) :: m
    real, intent(inout) :: v(m)
    integer :: jj
    do jj = 1, m
      v(jj) = v(jj) * 2.0 + real(jj)
    end do
  end subroutine sc16
''', ['sc16']),
    'case_mismatch': B('''    !@INL
    call sc17(3, b(2:4), x)
''', '''  subroutine sc17(m, V, Pp)
    integer, intent(in) :: m
    real, intent(inout) :: V(M)
    real, intent(inout) :: Pp
    integer :: jj
    do jj = 1, m
      v(JJ) = V(jj) * 2.0 + real(Jj)
    end do
    PP = pp + 1.0
  end subroutine sc17
''', ['sc17']),
    'assumed_size': B('''    !@INL
    call sc18(3, b(2:4))
    !@INL
    call sc18(n + 1, a)
''', '''  subroutine sc18(m, v)
    integer, intent(in) :: m
    real, intent(inout) :: v(*)
    integer :: jj
    do jj = 1, m
      v(jj) = v(jj) * 2.0 + real(jj)
    end do
  end subroutine sc18
''', ['sc18']),
    'seq_assoc': B('''    !@INL
    call sc19(3, b(2))
''', '''  subroutine sc19(m, v)
    integer, intent(in) :: m
    real, intent(inout) :: v(m)
    integer :: jj
    do jj = 1, m
      v(jj) = v(jj) * 2.0 + real(jj)
    end do
  end subroutine sc19
''', ['sc19']),
    'expr_mul': B('''    !@INL
    call em(x + 1.0, loc - 0.5, r)
''', '''  subroutine em(e, f, q)
    real, intent(in) :: e, f
    real, intent(inout) :: q
    q = e * 2.0
    q = q + 2.0 * f
    q = q + e * f
  end subroutine em
''', ['em']),
    'expr_div': B('''    !@INL
    call ed(k + 1, k * 2, j)
    !@INL
    call edr(x * 2.0, r)
''', '''  subroutine ed(e, f, q)
    integer, intent(in) :: e, f
    integer, intent(out) :: q
    q = 24 / e + 48 / f
    q = q + f / 3
  end subroutine ed
  subroutine edr(e, q)
    real, intent(in) :: e
    real, intent(inout) :: q
    q = q + 8.0 / e
  end subroutine edr
''', ['ed', 'edr']),
    'expr_pow': B('''    !@INL
    call ep(x + 1.0, k + 1, r)
    !@INL
    call ep(x * 2.0, 2 * k, loc)
''', '''  subroutine ep(e, ie, q)
    real, intent(in) :: e
    integer, intent(in) :: ie
    real, intent(inout) :: q
    q = q + e ** 2
    q = q + 2.0 ** ie
  end subroutine ep
''', ['ep']),
    'expr_neg': B('''    !@INL
    call en(x - 0.5, r)
    !@INL
    call en(x + 0.5, loc)
''', '''  subroutine en(e, q)
    real, intent(in) :: e
    real, intent(inout) :: q
    q = q - e
    q = -e + q * 2.0
    q = 3.0 - e + q
  end subroutine en
''', ['en']),
    'expr_logical': B('''    !@INL
    call el(x > 0.75 .or. k == 1, r)
''', '''  subroutine el(fl, q)
    logical, intent(in) :: fl
    real, intent(inout) :: q
    if (.not. fl) q = q + 1.0
    if (fl .and. q > 100.0) q = q + 2.0
    if (fl) q = q + 4.0
  end subroutine el
''', ['el']),
    'neg_literal': B('''    !@INL
    call nl(-2.0, -3, r)
''', '''  subroutine nl(f, ie, q)
    real, intent(in) :: f
    integer, intent(in) :: ie
    real, intent(inout) :: q
    q = q - f
    q = q * f
    q = q + f ** 2
    q = q + 2.0 ** ie
    q = q + 4.0 / f
  end subroutine nl
''', ['nl']),
    'expr_reeval': B('''    !@INL
    call er(x + 1.0, x)
''', '''  subroutine er(e, y)
    real, intent(in) :: e
    real, intent(inout) :: y
    y = y * 2.0
    y = y + e
  end subroutine er
''', ['er']),
    'elem_index_modified': B('''    j = 1
    !@INL
    call ei(b(j), j)
''', '''  subroutine ei(e, idx)
    real, intent(inout) :: e
    integer, intent(inout) :: idx
    idx = idx + 1
    e = e + 1.0
  end subroutine ei
''', ['ei']),
    'name_capture': B('''    !@INL
    call nc(b(k), j)
''', '''  subroutine nc(e, k)
    real, intent(inout) :: e
    integer, intent(out) :: k
    k = 3
    e = e + 1.0
  end subroutine nc
''', ['nc']),
    'name_swap': B('''    !@INL
    call sw(x, r)
''', '''  subroutine sw(r, x)
    real, intent(inout) :: r
    real, intent(in) :: x
    r = r + 2.0 * x
  end subroutine sw
''', ['sw']),
    'keyword': B('''    !@INL
    call kw(q=r, p=x)
    !@INL
    call kw(loc, q=x)
''', '''  subroutine kw(p, q)
    real, intent(in) :: p
    real, intent(inout) :: q
    q = q * 2.0 - p
  end subroutine kw
''', ['kw']),
    'optional_present': B('''    !@INL
    call op1(r, x, 0.5)
    !@INL
    call op1(loc, o2=x, o1=0.25)
''', '''  subroutine op1(q, o1, o2)
    real, intent(inout) :: q
    real, intent(in), optional :: o1, o2
    if (present(o1)) q = q + o1
    if (present(o2)) then
      q = q + o2 * 2.0
    else
      q = q - 1.0
    end if
    if (present(o1) .and. q > 0.0) q = q + 1.0
  end subroutine op1
''', ['op1']),
    'optional_absent': B('''    !@INL
    call op2(r, o1=x)
''', '''  subroutine op2(q, o1, o2)
    real, intent(inout) :: q
    real, intent(in), optional :: o1, o2
    if (present(o1)) q = q + o1
    if (present(o2)) then
      q = q + o2 * 2.0
    else
      q = q - 1.0
    end if
  end subroutine op2
''', ['op2']),
    'local_clash_local': B('''    do i = 1, 2
      !@INL
      call lc(b(i))
    end do
''', '''  subroutine lc(e)
    real, intent(inout) :: e
    integer :: i, ia
    real :: loc
    loc = 0.0
    do i = 1, 3
      loc = loc + 1.0
    end do
    do ia = 1, 2
      loc = loc + 0.5
    end do
    e = e + loc
  end subroutine lc
''', ['lc']),
    'local_clash_dummy': B('''    !@INL
    call ld(x)
''', '''  subroutine ld(e)
    real, intent(inout) :: e
    real :: r
    integer :: n
    n = 2
    r = e * 2.0
    e = r + real(n)
  end subroutine ld
''', ['ld']),
    'local_clash_case': B('''    !@INL
    call lcc(x)
''', '''  subroutine lcc(e)
    real, intent(inout) :: e
    real :: LOC
    integer :: J
    J = 5
    LOC = e * 2.0
    e = loc + real(j)
  end subroutine lcc
''', ['lcc']),
    'auto_array': B('''    !@INL
    call aa(n, b)
''', '''  subroutine aa(m, v)
    integer, intent(in) :: m
    real, intent(inout) :: v(m)
    real :: tmp(m)
    integer :: jj
    do jj = 1, m
      tmp(jj) = v(m + 1 - jj)
    end do
    do jj = 1, m
      v(jj) = tmp(jj) + 1.0
    end do
  end subroutine aa
''', ['aa']),
    'auto_array_expr_size': B('''    !@INL
    call aa2(n - 1, b(2:n))
''', '''  subroutine aa2(m, v)
    integer, intent(in) :: m
    real, intent(inout) :: v(m)
    real :: tmp(m)
    integer :: jj
    do jj = 1, m
      tmp(jj) = v(m + 1 - jj)
    end do
    do jj = 1, m
      v(jj) = tmp(jj) + 1.0
    end do
  end subroutine aa2
''', ['aa2']),
    'auto_array_size_of_dummy': B('''    !@INL
    call aa4(b)
''', '''  subroutine aa4(v)
    real, intent(inout) :: v(:)
    real :: tmp4(size(v))
    integer :: jj
    do jj = 1, size(v)
      tmp4(jj) = v(size(v) + 1 - jj)
    end do
    do jj = 1, size(v)
      v(jj) = tmp4(jj) + 1.0
    end do
  end subroutine aa4
''', ['aa4']),
    'auto_array_local_size': B('''    j = n - 1
    !@INL
    call aa3(j, b)
''', '''  subroutine aa3(m, v)
    integer, intent(in) :: m
    real, intent(inout) :: v(m)
    real :: tmp(m)
    integer :: jj
    do jj = 1, m
      tmp(jj) = v(m + 1 - jj)
    end do
    do jj = 1, m
      v(jj) = tmp(jj) + 1.0
    end do
  end subroutine aa3
''', ['aa3']),
    'two_calls_diff_size': B('''    !@INL
    call tc(2, b(1:2))
    !@INL
    call tc(n, b)
''', '''  subroutine tc(m, v)
    integer, intent(in) :: m
    real, intent(inout) :: v(m)
    real :: tmp(m)
    integer :: jj
    do jj = 1, m
      tmp(jj) = v(m + 1 - jj)
    end do
    do jj = 1, m
      v(jj) = tmp(jj) + 1.0
    end do
  end subroutine tc
''', ['tc']),
    'callee_param_local': B('''    !@INL
    call cp(x)
''', '''  subroutine cp(e)
    real, intent(inout) :: e
    real, parameter :: phalf = 0.5
    integer, parameter :: pn = 2
    real :: ptmp(pn)
    ptmp = phalf
    e = e + sum(ptmp)
  end subroutine cp
''', ['cp']),
    'host_assoc': B('''    call ha(b(1))
''', '''  subroutine ha(e)
    real, intent(inout) :: e
    real :: x
    x = 4.0
    e = e + r + x
    r = r + 1.0
    loc = loc + real(n)
  end subroutine ha
''', ['ha'], only=('int',)),
    'module_var': B('''    !@INL
    call mv(x)
''', '''  subroutine mv(e)
    real, intent(inout) :: e
    e = e * gscale
    gscale = gscale + 1.0
  end subroutine mv
''', ['mv'], only=('mark',)),
    'callee_import': B('''    !@INL
    call ci(x)
''', '''  subroutine ci(e)
    use cmod, only: half, c1
    real, intent(inout) :: e
    e = e + half * real(c1)
  end subroutine ci
''', ['ci'], only=('mark',)),
    'nested_fwd': B('''    !@INL
    call nfa(x, r)
''', '''  subroutine nfa(p, q)
    real, intent(in) :: p
    real, intent(inout) :: q
    real :: t1
    t1 = p + 1.0
    !@INL
    call nfb(t1, q)
    q = q + t1
  end subroutine nfa
  subroutine nfb(p, q)
    real, intent(in) :: p
    real, intent(inout) :: q
    real :: t1
    t1 = p * 2.0
    q = q + t1
  end subroutine nfb
''', ['nfa', 'nfb']),
    'nested_bwd': B('''    !@INL
    call nba(x, r)
''', '''  subroutine nbb(p, q)
    real, intent(in) :: p
    real, intent(inout) :: q
    real :: t2
    t2 = p * 2.0
    q = q + t2
  end subroutine nbb
  subroutine nba(p, q)
    real, intent(in) :: p
    real, intent(inout) :: q
    real :: t2
    t2 = p + 1.0
    !@INL
    call nbb(t2, q)
    q = q + t2
  end subroutine nba
''', ['nba', 'nbb']),
    'partly_marked': B('''    !@INL
    call pm(x, r)
    call pm(r, x)
''', '''  subroutine pm(p, q)
    real, intent(in) :: p
    real, intent(inout) :: q
    q = q + p * 0.5
  end subroutine pm
''', ['pm'], only=('mark',)),
    'in_loop': B('''    do i = 1, 3
      !@INL
      call addsc(b(i), r)
      !@INL
      call addsc(r, m2(i, i))
    end do
'''),
    'in_branch': B('''    if (x > 0.75) then
      !@INL
      call addsc(x, r)
    else
      !@INL
      call addsc(r, x)
    end if
'''),
    'in_inline_if': B('''    !@INL
    if (x > 0.75) call addsc(x, r)
'''),
    'in_associate': B('''    associate (q => b(2), w => m2(:, 2))
      !@INL
      call addsc(x, q)
      !@INL
      call addsc(w(1), w(2))
    end associate
'''),
    'callee_return': B('''    !@INL
    call cr(x)
''', '''  subroutine cr(e)
    real, intent(inout) :: e
    if (e > 0.75) return
    e = e + 1.0
  end subroutine cr
''', ['cr']),
    'callee_associate': B('''    !@INL
    call ca(3, b(2:4))
''', '''  subroutine ca(m, v)
    integer, intent(in) :: m
    real, intent(inout) :: v(m)
    associate (w => v(2), u => v)
      w = w + 1.0
      u(m) = u(1) * 2.0
    end associate
  end subroutine ca
''', ['ca']),
    'callee_pragma_routine': B('''    !@INL
    call pr(x)
''', '''  subroutine pr(e)
    real, intent(inout) :: e
    !$loki routine seq
    e = e + 0.25
  end subroutine pr
''', ['pr']),
    'member_function': B('''    r = r + mf(x) * 2.0
''', '''  function mf(y)
    real, intent(in) :: y
    real :: mf
    mf = y + 1.0
  end function mf
''', ['mf'], only=('int',)),
    'module_level_import': B('', only=('mark',)),
}

# ------------------------------------------------------------------------------------------------ function blocks
# `@ELEM@` becomes `elemental ` or '' (option of the variant); every @ELEM@ function is pure.
F_BLOCKS = {
    'base': B('''    r = r + fdbl(x)
''', '''  @ELEM@function fdbl(y)
    real, intent(in) :: y
    real :: fdbl
    fdbl = y * 2.0
  end function fdbl
  @ELEM@function fadd1(y)
    real, intent(in) :: y
    real :: fadd1
    fadd1 = y + 1.0
  end function fadd1
  @ELEM@function fint(ii)
    integer, intent(in) :: ii
    integer :: fint
    fint = ii + 1
  end function fint
''', ['fdbl', 'fadd1', 'fint']),
    'larger_expr': B('''    r = r + 2.0 * fadd1(x) - 1.0
    j = 24 / fint(k) + j
    r = r - fadd1(x)
    r = r + fadd1(x) ** 2
'''),
    'twice_stmt': B('''    r = fdbl(x) + fdbl(b(2))
    loc = fadd1(x) * fdbl(r)
'''),
    'nested_same': B('''    r = r + fdbl(fdbl(x))
'''),
    'nested_diff': B('''    r = r + fdbl(fadd1(x))
    loc = fadd1(fdbl(x) + fadd1(r))
'''),
    'in_condition': B('''    if (fdbl(x) > 1.5) then
      r = r + 1.0
    else
      r = r - 1.0
    end if
'''),
    'in_elseif': B('''    if (x > 100.0) then
      r = r + 8.0
    else if (fdbl(x) > 1.5) then
      r = r + 1.0
    else
      r = r - 1.0
    end if
'''),
    'in_inline_if_cond': B('''    if (fdbl(x) > 1.5) r = r + 1.0
'''),
    'in_inline_if_body': B('''    if (x > 0.75) r = r + fdbl(x)
'''),
    'in_dowhile': B('''    loc = x
    i = 0
    do while (fdbl(loc) < 16.0 .and. i < 20)
      loc = loc * 2.0
      r = r + 1.0
      i = i + 1
    end do
'''),
    'in_loop_bound': B('''    do i = 1, fint(k)
      r = r + 0.5
    end do
'''),
    'as_actual': B('''    call addsc(fdbl(x), r)
    call addsc(fadd1(r), loc)
''', ADDSC, ['addsc']),
    'intrinsic_call': B('''    r = r + max(x, 1.5)
    r = r + max(fdbl(x), 1.5)
'''),
    'as_subscript': B('''    r = r + b(fint(k))
    b(fint(1)) = 3.0
'''),
    'locals_early': B('''    r = r + flo(x) + flo(r)
''', '''  @ELEM@function flo(y)
    real, intent(in) :: y
    real :: flo
    real :: t1
    integer :: it
    flo = 0.0
    t1 = y * 2.0
    it = 2
    if (t1 > 1.5) then
      flo = t1 + real(it)
    end if
    flo = flo + 0.5
  end function flo
''', ['flo']),
    'result_clause': B('''    r = r + fres(x) * 2.0
''', '''  @ELEM@function fres(y) result(res)
    real, intent(in) :: y
    real :: res
    res = y * 4.0
  end function fres
''', ['fres']),
    'typed_prefix': B('''    r = r + fpre(x) * 2.0
''', '''  @ELEM@real function fpre(y)
    real, intent(in) :: y
    fpre = y * 4.0 + 1.0
  end function fpre
''', ['fpre']),
    'in_loop': B('''    do i = 1, n
      b(i) = fdbl(b(i)) + real(fint(i))
    end do
'''),
    'lhs_is_arg': B('''    x = fdbl(x)
    r = fadd1(r) + r
'''),
    'expr_actual': B('''    r = r + fops(x + 1.0, k + 1)
    r = r + fops(x * 2.0, k * 2)
    r = r + fops(-2.0, 2)
''', '''  @ELEM@function fops(e, ie)
    real, intent(in) :: e
    integer, intent(in) :: ie
    real :: fops
    fops = e * 2.0 - e ** 2 + 2.0 ** ie
    fops = -e + fops - e
  end function fops
''', ['fops']),
    'expr_div': B('''    j = j + fdiv(k + 1) + fdiv(k * 2)
''', '''  @ELEM@function fdiv(ie)
    integer, intent(in) :: ie
    integer :: fdiv
    fdiv = 48 / ie + ie / 3
  end function fdiv
''', ['fdiv']),
    'keyword': B('''    r = r + fkw(q=x, p=r) + fkw(loc, q=2.0)
''', '''  @ELEM@function fkw(p, q)
    real, intent(in) :: p, q
    real :: fkw
    fkw = p - 2.0 * q
  end function fkw
''', ['fkw']),
    'optional_present': B('''    r = r + fop(x, o=r)
''', '''  @ELEM@function fop(y, o)
    real, intent(in) :: y
    real, intent(in), optional :: o
    real :: fop
    fop = y
    if (present(o)) fop = fop + o
  end function fop
''', ['fop']),
    'optional_absent': B('''    r = r + fop2(x)
''', '''  @ELEM@function fop2(y, o)
    real, intent(in) :: y
    real, intent(in), optional :: o
    real :: fop2
    fop2 = y
    if (present(o)) fop2 = fop2 + o
  end function fop2
''', ['fop2']),
    'local_clash': B('''    do i = 1, 2
      b(i) = flc(b(i))
    end do
''', '''  @ELEM@function flc(y)
    real, intent(in) :: y
    real :: flc
    real :: loc
    integer :: i
    loc = 0.0
    do i = 1, 3
      loc = loc + y
    end do
    flc = loc
  end function flc
''', ['flc']),
    'array_result': B('''    b(1:3) = fvec(3, b(2:4))
''', '''  function fvec(m, v)
    integer, intent(in) :: m
    real, intent(in) :: v(m)
    real :: fvec(m)
    integer :: jj
    do jj = 1, m
      fvec(jj) = v(jj) * 2.0 + real(jj)
    end do
  end function fvec
''', ['fvec']),
    'elemental_array_args': B('''    b = fea(b)
''', '''  elemental function fea(y)
    real, intent(in) :: y
    real :: fea
    fea = y * 2.0 + 1.0
  end function fea
''', ['fea']),
    'elemental_mixed_calls': B('''    b(1:3) = fem(b(1:3))
    r = r + fem(x)
''', '''  elemental function fem(y)
    real, intent(in) :: y
    real :: fem
    fem = y * 2.0 + 1.0
  end function fem
''', ['fem']),
    'in_associate': B('''    associate (q => b(2))
      q = fdbl(q) + fadd1(x)
    end associate
'''),
    'two_stmts': B('''    r = r + fdbl(x)
    x = fdbl(r)
    if (x > 1.0) then
      loc = fdbl(loc)
    end if
'''),
    'name_capture': B('''    j = 3
    r = r + fcap(b(k), j)
''', '''  @ELEM@function fcap(e, k)
    real, intent(in) :: e
    integer, intent(in) :: k
    real :: fcap
    fcap = e * real(k)
  end function fcap
''', ['fcap']),
    'fn_return': B('''    r = r + fret(x)
''', '''  @ELEM@function fret(y)
    real, intent(in) :: y
    real :: fret
    fret = 0.0
    if (y > 0.75) return
    fret = 1.0
  end function fret
''', ['fret']),
    'callee_import': B('''    r = r + fci(x)
''', '''  @ELEM@function fci(y)
    use cmod, only: half
    real, intent(in) :: y
    real :: fci
    fci = y + half
  end function fci
''', ['fci']),
    'module_var': B('''    r = r + fmv(x)
''', '''  function fmv(y)
    real, intent(in) :: y
    real :: fmv
    fmv = y * gscale
  end function fmv
''', ['fmv']),
}

# ------------------------------------------------------------------------------------------------ statement function blocks
S_BLOCKS = {
    'base': B('''    r = r + sfa(x)
''', decl='''    real :: sfa, ya
''', stmt='''    sfa(ya) = ya * 2.0 + 1.0
'''),
    'expr_mul': B('''    r = r + sfm(x + 1.0) + sfm(r - 0.5)
''', decl='''    real :: sfm, ym
''', stmt='''    sfm(ym) = ym * 2.0 + 2.0 * ym
'''),
    'expr_div': B('''    j = j + isd(k + 1) + isd(k * 2)
    r = r + sfd(x * 2.0)
''', decl='''    integer :: isd, id
    real :: sfd, yd
''', stmt='''    isd(id) = 48 / id
    sfd(yd) = 8.0 / yd
'''),
    'expr_pow': B('''    r = r + sfp(x + 1.0) + sfp(-2.0) + sfq(k + 1)
''', decl='''    real :: sfp, yp, sfq
    integer :: iq
''', stmt='''    sfp(yp) = yp ** 2
    sfq(iq) = 2.0 ** iq
'''),
    'expr_neg': B('''    r = r + sfn(x - 0.5) + sfn(-2.0)
''', decl='''    real :: sfn, yn
''', stmt='''    sfn(yn) = -yn + 3.0 - yn
'''),
    'nested': B('''    r = r + sfg(x) + sfh(r)
''', decl='''    real :: sfg, yg, sfh, yh
''', stmt='''    sfg(yg) = sfa(yg) + 1.0
    sfh(yh) = 2.0 * sfa(yh + 1.0)
'''),
    'two_args': B('''    r = r + sf2(x, r) + sf2(sfa(x), loc - 1.0)
''', decl='''    real :: sf2, p1, p2
''', stmt='''    sf2(p1, p2) = p1 - 2.0 * p2
'''),
    'host_var': B('''    r = r + sfv(2.0)
    loc = loc + 1.0
    r = r + sfv(x)
''', decl='''    real :: sfv, yv
''', stmt='''    sfv(yv) = yv * loc + x
'''),
    'twice': B('''    r = sfa(x) + sfa(b(2))
    loc = sfa(sfa(x))
'''),
    'in_condition': B('''    if (sfa(x) > 2.5) then
      r = r + 1.0
    else if (sfa(x) > 1.5) then
      r = r + 2.0
    end if
    if (sfa(r) > 1.0) r = r + sfa(loc)
'''),
    'as_actual': B('''    call addsc(sfa(x), r)
    r = r + max(sfa(x), 2.5)
'''),
    'in_loop': B('''    do i = 1, n
      b(i) = sfa(b(i)) + sfa(real(i))
    end do
'''),
    'dummy_also_variable': B('''    yw = 2.0
    r = r + sfw(x) + yw
''', decl='''    real :: sfw, yw
''', stmt='''    sfw(yw) = yw * 4.0
'''),
    'dummy_named_as_kern_arg': B('''    r = r + sfx(loc)
''', decl='''    real :: sfx
''', stmt='''    sfx(x) = x * 4.0 + 1.0
'''),
    'unused': B('', decl='''    real :: sfu, yu
''', stmt='''    sfu(yu) = yu * 8.0
'''),
    'elem_actual': B('''    r = r + sfa(b(k)) + sfa(m2(k, 2)) + sfa(t%x)
'''),
    'calls_function': B('''    r = r + sff(x)
''', decl='''    real :: sff, yf
''', stmt='''    sff(yf) = fdbl(yf) + 1.0
''', names=['fdbl'], callees='''  elemental function fdbl(y)
    real, intent(in) :: y
    real :: fdbl
    fdbl = y * 2.0
  end function fdbl
'''),
    'intrinsic_in_rhs': B('''    r = r + sfi(x - 1.0)
''', decl='''    real :: sfi, yi
''', stmt='''    sfi(yi) = max(yi, 0.0) * 2.0 + abs(yi)
'''),
}

# ------------------------------------------------------------------------------------------------ constant blocks
C_BLOCKS = {
    'base': B('''    k = k + c1
''', cimports=['c1']),
    'in_product': B('''    k = k * c7
    k = k - c7
    j = 100 / c7
    r = r + 2.0 ** c7
''', cimports=['c7']),
    'param_of_param': B('''    k = k * c2
    k = k - c2
    j = 100 / c2
    r = r + 2.0 ** c2
''', cimports=['c2']),
    'param_of_param_both_imported': B('''    k = k * c2 + c7
''', cimports=['c2', 'c7', 'c1']),
    'neg_param': B('''    k = k - cneg
    j = k * cneg
    r = r + x * 2.0 ** cneg
    r = r + real(cneg ** 2)
''', cimports=['cneg']),
    'in_dimension': B('''    ctmp = 1.0
    ctmp(c1) = 2.0
    r = r + sum(ctmp)
''', decl='''    real :: ctmp(c1)
''', cimports=['c1']),
    'as_kind': B('''    yk = 1.5_rk * real(k, kind=rk)
    r = r + yk
''', decl='''    real(kind=rk) :: yk
''', cimports=['rk']),
    'real_param': B('''    r = r + half * 2.0 - half
''', cimports=['half']),
    'literal_kind_in_initial': B('''    r = r + quart
''', cimports=['quart']),
    'literal_kind_in_initial_imported': B('''    r = r + quart * 1.0_rk
''', cimports=['quart', 'rk']),
    'shadowed_local': B('''    cneg = 10
    k = k + cneg
''', decl='''    integer :: cneg
''', imports='@MODLEVEL@cneg'),
    'module_level_import': B('''    k = k + c7
''', imports='@MODLEVEL@c7'),
    'used_in_member': B('''    call cmem(k)
''', callees='''  subroutine cmem(q)
    integer, intent(inout) :: q
    integer :: c1
    c1 = 4
    q = q + c1 * c7
  end subroutine cmem
''', cimports=['c7']),
    'renamed_import': B('''    k = k + lc7
''', imports='@RENAME@lc7 => c7'),
    'param_array': B('''    k = k + carr(2) + carr(mod(k, 3) + 1)
    j = sum(carr)
''', cimports=['carr']),
    'local_param': B('''    k = k + lp * 2
''', decl='''    integer, parameter :: lp = 5
'''),
    'local_param_expr': B('''    k = k + lp2 * 2
''', decl='''    integer, parameter :: lp2 = c1 + 1
''', cimports=['c1']),
    'local_param_dim': B('''    lt = 0.5
    r = r + sum(lt)
''', decl='''    integer, parameter :: lp3 = 5
    real :: lt(lp3)
'''),
    'local_param_literal_kind': B('''    r = r + lq
''', decl='''    real(kind=rk), parameter :: lq = 1.5_rk
''', cimports=['rk']),
    'loop_bound_case': B('''    do i = 1, c1
      r = r + 0.5
    end do
    select case (k)
    case (c1)
      r = r + 4.0
    case default
      r = r + 8.0
    end select
''', cimports=['c1']),
    'as_actual': B('''    call addint(c1, k)
    call addint(c7 - c1, k)
''', cimports=['c1', 'c7']),
    'use_without_only': B('''    k = k + c7
    r = r + gvar
''', imports='@ALL@'),
    'non_parameter_import': B('''    r = r + gvar
''', cimports=['gvar']),
}

# ------------------------------------------------------------------------------------------------ the all-in-one kernel
ALL_OPTS = ['inline_constants', 'inline_elementals', 'inline_stmt_funcs', 'inline_internals', 'inline_marked',
            'remove_dead_code', 'adjust_imports', 'external_only', 'resolve_sequence_association']
ALL_DEFAULT = dict(inline_constants=False, inline_elementals=True, inline_stmt_funcs=False, inline_internals=False,
                   inline_marked=True, remove_dead_code=True, adjust_imports=True, external_only=True,
                   resolve_sequence_association=False)
A_BLOCKS = {
    'base': B('''    k = k + c1
    r = r + fdbl(x)
    r = r + sfa(x)
    call inner(x, r)
    !$loki inline
    call addsc(x, r)
    if (k > 100) then
      r = r + 16.0
    end if
''', callees=ADDSC + '''  elemental function fdbl(y)
    real, intent(in) :: y
    real :: fdbl
    fdbl = y * 2.0
  end function fdbl
''', names=['addsc', 'fdbl'], decl='''    real :: sfa, ya
    integer, parameter :: lp = 5
''', stmt='''    sfa(ya) = ya * 2.0 + 1.0
''', cimports=['c1']),
    'optional_absent': B('''    !$loki inline
    call op2(r, o1=x)
''', P_BLOCKS['optional_absent']['callees'], ['op2']),
    'seq_assoc': B('''    !$loki inline
    call sc19(3, b(2))
''', P_BLOCKS['seq_assoc']['callees'], ['sc19']),
    'section_lb0': B('''    !$loki inline
    call sc5(3, a(0:2))
''', P_BLOCKS['section_lb0']['callees'], ['sc5']),
    'local_param': B('''    k = k + lp
'''),
}
A_MEMBER = '''  subroutine inner(p, q)
    real, intent(in) :: p
    real, intent(inout) :: q
    integer :: ia
    do ia = 1, 2
      q = q + p
    end do
  end subroutine inner
'''

TEMPLATES = {'int': P_BLOCKS, 'mark': P_BLOCKS, 'fn': F_BLOCKS, 'stmt': S_BLOCKS, 'const': C_BLOCKS, 'all': A_BLOCKS}

XFORMS = {
    'int': [('int', {}), ('int', dict(allowed_aliases=['ia'])),
            ('trafo', dict(inline_internals=True)),
            ('trafo', dict(inline_internals=True, resolve_sequence_association=True))],
    'mark': [('mark', dict(adjust_imports=True)), ('mark', dict(adjust_imports=False)),
             ('trafo', dict(inline_marked=True)),
             ('trafo', dict(inline_marked=True, adjust_imports=False, resolve_sequence_association=True,
                            allowed_aliases=['ia']))],
    'fn': [('fn', dict(elemental=False)), ('fn', dict(elemental=True)), ('fnelem', dict(elemental=True)),
           ('trafo', dict(inline_elementals=True, elemental=True))],
    'stmt': [('stmt', {}), ('trafo', dict(inline_stmt_funcs=True))],
    'const': [('const', dict(external_only=True)), ('const', dict(external_only=False)),
              ('trafo', dict(inline_constants=True, external_only=True)),
              ('trafo', dict(inline_constants=True, external_only=False))],
}


# pairs of blocks (d=2) are run under the primary variants only (int: utility; mark: default InlineTransformation;
# fn: inline_functions on plain functions; stmt: utility; const: both external_only).  In the mark template only pairs
# with at least one mark-only block are generated: all other pairs go through the same inline_subroutine_calls /
# map_call_to_procedure_body code in the int template (1653 pairs there), the mark template adds pragma and import handling.
PRIMARY = {
    'int': [XFORMS['int'][0]],
    'mark': [XFORMS['mark'][2]],
    'fn': [XFORMS['fn'][0]],
    'stmt': [XFORMS['stmt'][0]],
    'const': [XFORMS['const'][0], XFORMS['const'][1]],
}


def all_option_sets(full):
    """InlineTransformation option product for the all-in-one kernel.  full: all 2^9 (x allowed_aliases where a
    subroutine inliner is on); else every set with <= 1 option away from the defaults or from all-True."""
    sets = []
    if full:
        for vals in itertools.product([False, True], repeat=len(ALL_OPTS)):
            o = dict(zip(ALL_OPTS, vals))
            sets.append(o)
            if o['inline_internals'] or o['inline_marked']:
                sets.append(dict(o, allowed_aliases=['ia']))
    else:
        for start in (ALL_DEFAULT, dict.fromkeys(ALL_OPTS, True)):
            for flip in [None] + ALL_OPTS:
                o = dict(start)
                if flip:
                    o[flip] = not o[flip]
                if o not in sets:
                    sets.append(o)
        sets.append(dict(dict.fromkeys(ALL_OPTS, True), allowed_aliases=['ia']))
    return sets


# ------------------------------------------------------------------------------------------------ assembly
def _inl(text, mark):
    if mark:
        return text.replace('!@INL', '!$loki inline')
    return ''.join(ln for ln in text.splitlines(True) if ln.strip() != '!@INL')


def build_sources(tmpl, blocks, opts):
    """-> [[fname, text], ...] for template `tmpl` with the given block names (base first)."""
    menu = TEMPLATES[tmpl]
    bl = [menu[k] for k in blocks]
    elem = 'elemental ' if opts.get('elemental') else ''
    callees = ''.join(b['callees'] for b in bl).replace('@ELEM@', elem)
    names = [b['names'] for b in bl if b['names']]
    body = ''.join(b['body'] for b in bl)
    decl = ''.join(b['decl'] for b in bl)
    stmt = ''.join(b['stmt'] for b in bl)
    cimp = list(dict.fromkeys(c for b in bl for c in b['cimports']))
    special = [b['imports'] for b in bl if b['imports']]
    mod_imports, kern_imports = '', ''
    members = ''
    in_util = callees
    if tmpl == 'int':
        members, in_util, names = _inl(callees, False), '', []
        body = _inl(body, False)
    elif tmpl == 'mark':
        in_util, body = _inl(callees, True), _inl(body, True)
    elif tmpl == 'all':
        members = A_MEMBER
    elif tmpl == 'const':
        # member procedures of the kernel (used_in_member)
        members, in_util, names = callees, '', []
    only = ', '.join(['tt', 'ext_scale', 'addint'] + (['addsc'] if tmpl in ('stmt', 'const') else []))
    util_use = f'    use util_mod, only: {only}\n'
    for nm in names:  # one USE statement per block, so that import clean-up sees small symbol lists
        if 'module_level_import' in blocks and tmpl == 'mark':
            mod_imports += f'  use util_mod, only: {", ".join(nm)}\n'
        else:
            util_use += f'    use util_mod, only: {", ".join(nm)}\n'
    cmod_needed = bool(cimp or special) or any('use cmod' in b['callees'] for b in bl)
    if cimp:
        kern_imports += f'    use cmod, only: {", ".join(cimp)}\n'
    for s in special:
        if s.startswith('@MODLEVEL@'):
            mod_imports += f'  use cmod, only: {s[10:]}\n'
        elif s.startswith('@RENAME@'):
            kern_imports += f'    use cmod, only: {s[8:]}\n'
        elif s == '@ALL@':
            kern_imports += '    use cmod\n'
    if tmpl in ('stmt', 'const'):
        in_util = ADDSC + in_util
    util = UTIL_HEAD + in_util + UTIL_TAIL
    kmod = ('module kmod\n' + mod_imports + '  implicit none\ncontains\n'
            '  subroutine kern(n, a, b, m2, t, x, r, k)\n' + util_use + kern_imports + KERN_DECL + decl + stmt
            + KERN_INIT + body + KERN_END + ('  contains\n' + members if members else '')
            + '  end subroutine kern\nend module kmod\n')
    src = []
    if cmod_needed:
        src.append(['cmod.f90', CMOD])
    src += [['util_mod.f90', util], ['kmod.f90', kmod]]
    return src


def _opt_id(opts):
    def val(v):
        return '+'.join(v) if isinstance(v, (list, tuple)) else str(v)
    return ','.join(f'{k}={val(v)}' for k, v in sorted(opts.items()))


def _mk(tmpl, blocks, xf, opts):
    return dict(id=f'{tmpl}:{"+".join(blocks)}|{xf}({_opt_id(opts)})', sources=build_sources(tmpl, blocks, opts),
                driver=DRIVER, xform=xf, opts=dict(opts), switches=sorted(b for b in blocks if b != 'base'), tmpl=tmpl)


def make_cases(d):
    cases = []
    for tmpl in ('int', 'mark', 'stmt', 'fn', 'const'):
        menu = TEMPLATES[tmpl]

        names = [k for k, b in menu.items() if k != 'base' and (b['only'] is None or tmpl in b['only'])]
        for dev in deviations({k: [True] for k in names}, d):
            blocks = ['base'] + [k for k in names if k in dev]
            if tmpl == 'mark' and len(dev) == 2 and not any(menu[k]['only'] for k in dev):
                continue
            for xf, opts in (XFORMS[tmpl] if len(dev) <= 1 else PRIMARY[tmpl]):
                if tmpl == 'mark' and 'callee_import' in blocks and opts.get('adjust_imports') is False:
                    continue  # precondition: without adjust_imports the user provides the callee's imports
                cases.append(_mk(tmpl, blocks, xf, opts))
    # all-in-one kernel: option product on the base kernel; feature blocks under the reduced option list
    full = d >= 2
    for opts in all_option_sets(full):
        cases.append(_mk('all', ['base'], 'trafo', opts))
    reduced = all_option_sets(False)
    names = [k for k in A_BLOCKS if k != 'base']
    for dev in deviations({k: [True] for k in names}, d):
        if not dev:
            continue
        blocks = ['base'] + [k for k in names if k in dev]
        for opts in reduced:
            cases.append(_mk('all', blocks, 'trafo', opts))
    return cases


# ------------------------------------------------------------------------------------------------ the code under test
def _routines(files):
    """module procedures and free routines in file order (= leaves first: cmod, util_mod, kmod)."""
    out = []
    for sf in files.values():
        out += list(sf.all_subroutines)
    return out


def apply(case, files):
    from loki.transformations.inline import (
        inline_internal_procedures, inline_marked_subroutines, inline_statement_functions, inline_functions,
        inline_elemental_functions, inline_constant_parameters, InlineTransformation)
    xf, o = case['xform'], dict(case['opts'])
    o.pop('elemental', None)
    if 'allowed_aliases' in o:
        o['allowed_aliases'] = tuple(o['allowed_aliases'])
    trafo = InlineTransformation(**o) if xf == 'trafo' else None
    for r in _routines(files):
        if xf in ('stmt', 'fn', 'fnelem', 'const') and r.name.lower() != 'kern':
            continue  # these utilities resolve nested calls themselves: applied to the kernel only
        if xf == 'int':
            inline_internal_procedures(r, **o)
        elif xf == 'mark':
            inline_marked_subroutines(r, **o)
        elif xf == 'stmt':
            inline_statement_functions(r)
        elif xf == 'fn':
            inline_functions(r)
        elif xf == 'fnelem':
            inline_elemental_functions(r)
        elif xf == 'const':
            inline_constant_parameters(r, **o)
        elif xf == 'trafo':
            trafo.apply(r)
        else:
            raise ValueError(xf)


_ORIG = {}


def judge(case, orig=None, base=None):
    """xform.run_case with an optional pre-built original (all variants of one program share it)."""
    import traceback
    from loki import Sourcefile, Frontend
    xform.quiet()
    if orig is None:
        key = repr((case['sources'], case['driver']))
        if key not in _ORIG:  # replays of one process: the harness-owned original is built once
            _ORIG[key] = xfast.merged_build_run(case['sources'], case['driver'], case.get('extra', ()), base=base)
        orig = _ORIG[key]
    if not orig['ok']:
        return dict(verdict='HARNESS', detail=f'original fails at {orig["stage"]}: {orig["err"][-600:]}', changed=False)
    try:
        files = xform.parse_sources(case)
        apply(case, files)
        new = [[f, files[f].to_fortran()] for f, _ in case['sources']]
    except Exception as ex:  # pylint: disable=broad-except
        tb = traceback.format_exc().strip().splitlines()
        where = next((ln.strip() for ln in reversed(tb) if ln.strip().startswith('File "') and '/loki/' in ln), '')
        if xform.is_refusal(ex):
            return dict(verdict='refused', detail=f'{type(ex).__name__}: {str(ex)[:200]}', changed=False)
        return dict(verdict='loki-exception', detail=f'{type(ex).__name__}: {str(ex)[:300]} @ {where}', changed=False)
    base_text = [Sourcefile.from_source(t, frontend=Frontend.FP).to_fortran() for _, t in case['sources']]
    changed = base_text != [t for _, t in new]
    if not changed:
        # byte-identical to the untransformed round trip, which C01 covers: nothing to judge here
        return dict(verdict='unchanged-ok', detail='', changed=False)
    res = xfast.merged_build_run(new, case['driver'], case.get('extra', ()), base=base)
    out = dict(changed=changed)
    if not res['ok']:
        kind = 'xform-compile-error' if res['stage'] == 'compile' else 'xform-run-error'
        out.update(verdict=kind, detail=(res['err'] or '')[-900:])
        return out
    a, b = xform.norm_out(orig['out']), xform.norm_out(res['out'])
    if a != b:
        n = next((i for i, (x, y) in enumerate(zip(a, b)) if x != y), min(len(a), len(b)))
        out.update(verdict='output-differs',
                   detail=f'first difference at output line {n + 1}: original {a[n] if n < len(a) else "<eof>"!r} '
                          f'vs transformed {b[n] if n < len(b) else "<eof>"!r}')
        return out
    out.update(verdict='ok', detail='', nlines=len(a), distinct_lines=len(set(a)))
    return out


def worker(group):
    """group: cases that share sources and driver (the variants of one program): one original build."""
    orig = xfast.merged_build_run(group[0]['sources'], group[0]['driver'], base=worker.base)
    out = []
    for case in group:
        r = judge(case, orig, base=worker.base)
        r['id'] = case['id']
        out.append(r)
    return out


worker.base = None


def family(case):
    return case['xform'] if case['tmpl'] != 'all' else 'trafo-all'


def _all_sig(case, r, by_id):
    """all-in-one kernel: name the smallest set of options (w.r.t. the default set) that still fails the same way."""
    o = case['opts']
    on = [k for k in ALL_OPTS if o.get(k)]
    return f'opts_on={"+".join(on) or "none"}{"+aliases" if o.get("allowed_aliases") else ""}'


def sigfn(results_by_id):
    def sig(case, r):
        tmpl = case['tmpl']
        xfid = case['id'].split('|', 1)[1]
        fam = family(case)
        for sw in case['switches']:
            single = results_by_id.get(f'{tmpl}:base+{sw}|{xfid}')
            if single and single['verdict'] == r['verdict']:
                return f'{r["verdict"]} block={sw} xform={fam} tmpl={tmpl}'
        if tmpl == 'all' and not case['switches']:
            return f'{r["verdict"]} block=base {_all_sig(case, r, results_by_id)} xform={fam} tmpl=all'
        return f'{r["verdict"]} blocks={"+".join(case["switches"]) or "base"} xform={fam} tmpl={tmpl}'
    return sig


def run(ctx):
    d = 1 if ctx.quick else 2
    cases = make_cases(d)
    ids = [c['id'] for c in cases]
    ctx.require(len(ids) == len(set(ids)), 'case ids are not unique')
    worker.base = str(ctx.scratch)
    ctx.reset_pool()
    groups = {}
    for i, c in enumerate(cases):
        groups.setdefault(repr(c['sources']), []).append(i)
    groups = seeded_order(list(groups.values()), ctx.seed)
    results = [None] * len(cases)
    for idx, res in zip(groups, ctx.pmap(worker, [[cases[i] for i in g] for g in groups], chunksize=1)):
        for i, r in zip(idx, res):
            results[i] = r
    by_id = {r['id']: r for r in results}
    xform.summarise(ctx, cases, results, sigfn(by_id), min_changed=20)
    per_t = {}
    for c, r in zip(cases, results):
        t = per_t.setdefault(c['tmpl'], dict(cases=0, changed_ok=0, unchanged_ok=0, refused=0, failing=0))
        t['cases'] += 1
        key = {'ok': 'changed_ok', 'unchanged-ok': 'unchanged_ok', 'refused': 'refused'}.get(r['verdict'], 'failing')
        t[key] += 1
    for t, v in per_t.items():
        ctx.require(v['changed_ok'] >= 3, f'vacuous: template {t} has only {v["changed_ok"]} changed-and-equal cases')
    outs = len({(r.get('nlines'), r.get('distinct_lines')) for r in results if r['verdict'] == 'ok'})
    ctx.cov.update(
        exhaustive=True,
        bound=dict(max_blocks=d, blocks={t: len(m) - 1 for t, m in TEMPLATES.items()},
                   variants={t: len(x) for t, x in XFORMS.items()},
                   all_option_sets=len(all_option_sets(d >= 2)), inputs_per_run=3),
        per_template=per_t, distinct_output_shapes=outs,
        rule=f'per template: all combinations of <= {d} feature blocks added to the base kernel x every variant of the '
             'entry point; all-in-one kernel x InlineTransformation option sets '
             f'({"all 2^9 x allowed_aliases" if d >= 2 else "<= 1 option away from the defaults / from all-on"}); 3 inputs per '
             'run; non-trivial = the transformation changed the generated code and the program still prints the original output',
        samples=[dict(id=cases[0]['id']), dict(id=cases[-1]['id'], text=cases[-1]['sources'][-1][1])],
    )
    ctx.assumptions += ['gfortran -O0 -fcheck=bounds defines behaviour', 'only standard-conforming programs are generated',
                        'recursion excluded; callees are processed before callers (reverse traversal of the scheduler)']


def replay(case):
    r = judge(case)
    if r['verdict'] == 'HARNESS':
        raise RuntimeError(r['detail'])
    return None if r['verdict'] in ('ok', 'unchanged-ok', 'refused') else f'{r["verdict"]}: {r["detail"]}'
