"""Observation and edit library for program units (shared by C17 clone and C18 pickle).

observe(unit)       -> Obs(text, types, foreign): generated code, an ordered list of
                       (symbol text, type fingerprint) for every typed-symbol occurrence, and the
                       list of symbols whose `.scope` is not in the scope chain of the place they
                       occur in.  Nothing here compares against golden values: observations are only
                       ever compared with observations of other live objects.
edit_menu(built, path) -> the edits applicable to the unit at `path` of a freshly built zoo entry
apply_edit(unit, edit) -> mutate `unit` (a Sourcefile / Module / Subroutine) in the way a
                       transformation author would (public API only: symbol-table assignment,
                       Section.append, Transformer, SubstituteExpressions, node._update, the
                       `arguments` / `variables` setters, `name` assignment).

An edit is a JSON-able tuple (kind, target, arg):  `target` is a path *relative to the copied unit*
(() = the unit itself; (j,) = its j-th contained procedure; for a Sourcefile (i,) = i-th program
unit and (i, j) its j-th contained procedure).
"""
import collections

Obs = collections.namedtuple('Obs', 'text types foreign')


def _L():
    from loki import fgen
    from loki.ir import nodes as ir
    from loki.ir.nodes import Node
    from loki.program_unit import ProgramUnit
    from loki.sourcefile import Sourcefile
    from loki.types import Scope, BasicType, DerivedType, ProcedureType, SymbolAttributes
    from loki.expression import symbols as sym
    from loki.expression.mappers import ExpressionRetriever
    return dict(fgen=fgen, ir=ir, Node=Node, ProgramUnit=ProgramUnit, Sourcefile=Sourcefile, Scope=Scope,
                BasicType=BasicType, DerivedType=DerivedType, ProcedureType=ProcedureType,
                SymbolAttributes=SymbolAttributes, sym=sym, ExpressionRetriever=ExpressionRetriever)


_LK = {}


def LK():
    if not _LK:
        _LK.update(_L())
    return _LK


# ----------------------------------------------------------------------------- traversal
def typed_symbol_occurrences(unit):
    """Ordered list of (symbol object, structural scope stack) for every TypedSymbol/MetaSymbol
    occurrence in `unit` (Sourcefile, ProgramUnit or IR node).  The scope stack is the tuple of
    scope objects structurally enclosing the occurrence, outermost first."""
    lk = LK()
    Node, ProgramUnit, Sourcefile, Scope = lk['Node'], lk['ProgramUnit'], lk['Sourcefile'], lk['Scope']
    sym = lk['sym']
    retr = lk['ExpressionRetriever'](lambda e: isinstance(e, (sym.TypedSymbol, sym.MetaSymbol)))
    out = []

    holder = ['']

    def expr(e, stack):
        found = retr.retrieve(e)
        for i, s in enumerate(found):
            # a Scalar/Array meta symbol wraps a VariableSymbol (visited just before it): one occurrence, not two
            if i + 1 < len(found) and isinstance(found[i + 1], sym.MetaSymbol) and found[i + 1].symbol is s:
                continue
            out.append((s, stack, holder[0]))

    def visit(o, stack):
        if isinstance(o, Sourcefile):
            if o.ir is not None:
                visit(o.ir, stack)
        elif isinstance(o, ProgramUnit):
            st = stack + (o,)
            for part in o.ir:
                visit(part, st)
        elif isinstance(o, Node):
            st = stack + (o,) if isinstance(o, Scope) else stack
            d = o.__dict__
            for k in o.__dataclass_fields__:
                if k in ('source', 'symbol_attrs', 'parent'):
                    continue
                v = d.get(k)
                if v is not None and not isinstance(v, (str, int, float, bool)):
                    holder[0] = f'{type(o).__name__}.{k}'
                    visit(v, st)
        elif isinstance(o, (tuple, list)):
            for i in o:
                visit(i, stack)
        elif o is None or isinstance(o, (str, int, float, bool)):
            pass
        elif hasattr(o, 'mapper_method') or hasattr(o, 'init_arg_names'):
            expr(o, stack)
    visit(unit, ())
    return out


def scope_chain(scope):
    chain = []
    seen = set()
    while scope is not None and id(scope) not in seen:
        chain.append(scope)
        seen.add(id(scope))
        scope = scope.parent
    return chain


def all_scopes(unit):
    """Every scope object structurally inside `unit` (including the unit itself if it is one)."""
    lk = LK()
    Node, ProgramUnit, Sourcefile, Scope = lk['Node'], lk['ProgramUnit'], lk['Sourcefile'], lk['Scope']
    out = []

    def visit(o):
        if isinstance(o, Sourcefile):
            if o.ir is not None:
                visit(o.ir)
        elif isinstance(o, ProgramUnit):
            out.append(o)
            for part in o.ir:
                visit(part)
        elif isinstance(o, Node):
            if isinstance(o, Scope):
                out.append(o)
            for k in o.__dataclass_fields__:
                if k not in ('source', 'symbol_attrs', 'parent'):
                    visit(o.__dict__.get(k))
        elif isinstance(o, (tuple, list)):
            for i in o:
                visit(i)
    visit(unit)
    return out


def all_nodes(unit):
    """Every IR node / program unit object reachable from `unit` (expressions excluded)."""
    lk = LK()
    Node, ProgramUnit, Sourcefile = lk['Node'], lk['ProgramUnit'], lk['Sourcefile']
    out = []

    def visit(o):
        if isinstance(o, Sourcefile):
            if o.ir is not None:
                visit(o.ir)
        elif isinstance(o, ProgramUnit):
            out.append(o)
            for part in o.ir:
                visit(part)
        elif isinstance(o, Node):
            out.append(o)
            for k in o.__dataclass_fields__:
                if k not in ('source', 'symbol_attrs', 'parent'):
                    visit(o.__dict__.get(k))
        elif isinstance(o, (tuple, list)):
            for i in o:
                visit(i)
    visit(unit)
    return out


def innermost_associate(u):
    """The most deeply nested Associate of a routine body (first one at maximal depth), or None."""
    lk = LK()
    best = [None, 0]

    def visit(o, depth):
        if isinstance(o, lk['ir'].Associate):
            depth += 1
            if depth > best[1]:
                best[0], best[1] = o, depth
        if isinstance(o, lk['Node']):
            for k in o.__dataclass_fields__:
                if k not in ('source', 'symbol_attrs', 'parent'):
                    visit(o.__dict__.get(k), depth)
        elif isinstance(o, (tuple, list)):
            for i in o:
                visit(i, depth)
    if getattr(u, 'body', None) is not None:
        visit(u.body, 0)
    return best[0]


# ----------------------------------------------------------------------------- type fingerprint
def _render(v, cache):
    lk = LK()
    if v is None or isinstance(v, (str, int, float, bool)):
        return v
    if isinstance(v, (tuple, list)):
        return tuple(_render(i, cache) for i in v)
    if isinstance(v, lk['BasicType']):
        return str(v)
    if isinstance(v, lk['DerivedType']):
        td = v.typedef
        if isinstance(td, lk['ir'].TypeDef):
            key = ('td', id(td))
            if key not in cache:
                cache[key] = lk['fgen'](td)
            return ('derived', v.name, cache[key])
        return ('derived', v.name, 'no-typedef')
    if isinstance(v, lk['ProcedureType']):
        p = v.procedure
        if isinstance(p, lk['ProgramUnit']):
            key = ('proc', id(p))
            if key not in cache:
                cache[key] = (_proc_kind(p), p.name, tuple(p._dummies), lk['fgen'](p.spec) if p.spec else None)  # pylint: disable=protected-access
            link = cache[key]
        elif isinstance(p, lk['Node']):
            link = ('stmtfunc', str(getattr(p, 'variable', '')))
        else:
            link = 'unlinked'
        rt = v.return_type
        return ('proc', v.name, bool(v.is_function), bool(v.is_generic), link,
                None if rt is None else _render(rt.dtype, cache))
    if isinstance(v, lk['ProgramUnit']):
        return (type(v).__name__, v.name)
    if isinstance(v, lk['SymbolAttributes']):
        return type_fp(v, cache)
    if hasattr(v, 'mapper_method') or hasattr(v, 'init_arg_names'):
        return str(v)
    if hasattr(v, 'module') and type(v).__name__ == 'ModuleType':
        return ('moduletype', getattr(v, 'name', None))
    return repr(v)


_OWN = [frozenset(), frozenset()]


def _set_own(*units):
    own, contained = set(), set()
    for u in units:
        for x in all_scopes(u):
            own.add(id(x))
            for q in getattr(x, 'subroutines', ()) or ():
                contained.add(id(q))
    _OWN[0], _OWN[1] = frozenset(own), frozenset(contained)


def _proc_kind(p):
    """Relative to the unit(s) currently observed/compared: 'contained' = in the CONTAINS part of one of
    its program units; 'sibling' = another procedure object inside it (other unit of the file,
    interface body); 'external' = anything else (imported / enriched from definitions)."""
    if id(p) in _OWN[1]:
        return 'contained'
    return 'sibling' if id(p) in _OWN[0] else 'external'


def type_fp(t, cache=None):
    """Identity-free rendering of a SymbolAttributes (dtype links rendered through what they point at)."""
    cache = {} if cache is None else cache
    if t is None:
        return None
    items = []
    for k in sorted(t.__dict__):
        v = t.__dict__[k]
        if v is None or v is False:
            continue
        items.append((k, _render(v, cache)))
    return tuple(items)


def observe(unit, text=True):
    lk = LK()
    Sourcefile = lk['Sourcefile']
    if text:
        txt = unit.to_fortran() if isinstance(unit, Sourcefile) else lk['fgen'](unit)
    else:
        txt = None
    cache = {}
    types, foreign = [], []
    _set_own(unit)
    for s, stack, hold in typed_symbol_occurrences(unit):
        try:
            t = s.type
        except Exception as e:  # pylint: disable=broad-except
            types.append((str(s), ('type-raises', type(e).__name__)))
            continue
        types.append((str(s), type_fp(t, cache)))
        sc = s.scope
        if sc is not None and stack:
            chain = scope_chain(stack[-1])
            if not any(sc is c for c in chain):
                foreign.append((len(types) - 1, str(s), type(sc).__name__, getattr(sc, 'name', None),
                                f'in {hold}'))
    return Obs(txt, tuple(types), tuple(foreign))


def link_targets(unit):
    """For every typed-symbol occurrence: the TypeDef / procedure objects its dtype links to."""
    lk = LK()
    out = []
    for s, _, _ in typed_symbol_occurrences(unit):
        try:
            dt = s.type.dtype
            mod = s.type.module
        except Exception:  # pylint: disable=broad-except
            continue
        if isinstance(mod, lk['ProgramUnit']):
            out.append((str(s), 'module', mod))
        if isinstance(dt, lk['DerivedType']) and isinstance(dt.typedef, lk['ir'].TypeDef):
            out.append((str(s), 'typedef', dt.typedef))
        elif isinstance(dt, lk['ProcedureType']) and isinstance(dt.procedure, lk['ProgramUnit']):
            out.append((str(s), 'procedure', dt.procedure))
    return out


def diff_types(a, b):
    """First difference between two `Obs.types` lists, as (class, detail); None if equal."""
    if a == b:
        return None
    for (sa, ta), (sb, tb) in zip(a, b):
        if sa != sb:
            return ('symbol text', f'{sa!r} vs {sb!r}')
        if ta != tb:
            da, db = dict(ta or ()), dict(tb or ())
            for k in sorted(set(da) | set(db)):
                if da.get(k) != db.get(k):
                    va, vb = da.get(k), db.get(k)
                    cls = k
                    if k == 'dtype':
                        ka = va[0] if isinstance(va, tuple) else va
                        kb = vb[0] if isinstance(vb, tuple) else vb
                        if ka == kb == 'derived':
                            cls = 'dtype(derived).typedef' if va[1] == vb[1] else 'dtype(derived).name'
                        elif ka == kb == 'proc':
                            idx = next(i for i in range(len(va)) if va[i] != vb[i])
                            cls = 'dtype(procedure).' + ['', 'name', 'is_function', 'is_generic', 'procedure', 'return_type'][idx]
                            if idx == 4:
                                kinds = sorted({x[0] for x in (va[4], vb[4]) if isinstance(x, tuple)})
                                cls += f'[{"/".join(kinds)}]' 
                        else:
                            cls = f'dtype {ka if isinstance(ka, str) else "?"}->{kb if isinstance(kb, str) else "?"}'
                            cls = 'dtype kind-of-type'
                    return (cls, f'type of {sa!r}: {k} = {va!r} vs {vb!r}')
    if len(a) != len(b):
        return ('symbol count', f'{len(a)} vs {len(b)} typed-symbol occurrences')
    return ('unknown', 'type lists differ')


# ----------------------------------------------------------------------------- edits
def resolve(unit, target):
    """Program unit addressed by `target` relative to `unit`."""
    lk = LK()
    u = unit
    for k, idx in enumerate(target):
        if isinstance(u, lk['Sourcefile']) and k == 0:
            u = [n for n in u.ir.body if isinstance(n, lk['ProgramUnit'])][idx]
        else:
            u = u.subroutines[idx]
    return u


def _is_routine(u):
    return hasattr(u, 'body') and hasattr(u, '_dummies')


def _first_assignment(u):
    from loki.ir import FindNodes
    lk = LK()
    a = FindNodes(lk['ir'].Assignment).visit(u.body)
    return a[0] if a else None


def edit_menu(built, path):
    """Deterministic list of edits for the unit at `path` of a *fresh* Built.  Only the structure of
    the entry is inspected (which variables / typedefs / contained procedures exist)."""
    lk = LK()
    unit = built.unit(path)
    edits = []

    def unit_edits(u, tgt, rich):
        es = []
        if _is_routine(u):
            es.append(('rename_unit', tgt, None))
            names = [v.name for v in u.variables if isinstance(v.type.dtype, lk['BasicType'])]
            args = [a.name.lower() for a in u.arguments]
            locs = [n for n in names if n.lower() not in args]
            pick = (locs or names or [None])[0]
            if pick:
                es.append(('retype_var', tgt, pick))
            scal = [v.name for v in u.variables if not getattr(v, 'shape', None) and
                    isinstance(v.type.dtype, lk['BasicType']) and str(v.type.dtype) in ('BasicType.REAL', 'BasicType.INTEGER')
                    and not v.type.parameter]
            if scal:
                es.append(('append_stmt', tgt, scal[0]))
            if u.body and u.body.body:
                if _first_assignment(u) is not None:
                    es.append(('inplace_stmt', tgt, None))
                if rich:
                    es.append(('remove_stmt', tgt, None))
                    es.append(('remove_stmt_inplace', tgt, None))
            if innermost_associate(u) is not None:
                es.append(('inner_assoc_inplace', tgt, None))
                es.append(('inner_assoc_transform', tgt, None))
            if rich:
                if pick:
                    es.append(('replace_decl', tgt, pick))
                    es.append(('rename_var', tgt, (args or names)[0] if (args or names) else pick))
                es.append(('add_arg', tgt, None))
                if args:
                    es.append(('drop_arg', tgt, None))
        else:   # Module
            es.append(('rename_unit', tgt, None))
            names = [v.name for v in u.variables if isinstance(v.type.dtype, lk['BasicType'])]
            if names:
                es.append(('retype_var', tgt, names[0]))
            es.append(('append_decl', tgt, None))
            if rich and names:
                es.append(('replace_decl', tgt, names[0]))
        if u.typedefs:
            es.append(('typedef_retype', tgt, 0))
            if rich:
                es.append(('typedef_append', tgt, 0))
        return es

    if isinstance(unit, lk['Sourcefile']):
        units = [n for n in unit.ir.body if isinstance(n, lk['ProgramUnit'])]
        for i, u in enumerate(units):
            edits += unit_edits(u, (i,), rich=False)
            for j, s in enumerate(u.subroutines[:1]):
                edits += [e for e in unit_edits(s, (i, j), rich=False) if e[0] in ('inplace_stmt', 'retype_var', 'rename_unit')]
    else:
        edits += unit_edits(unit, (), rich=True)
        for j, s in enumerate(unit.subroutines[:2]):
            sub = unit_edits(s, (j,), rich=False)
            keep = ('inplace_stmt', 'retype_var', 'rename_unit', 'append_stmt') if j == 0 else ('inplace_stmt',)
            edits += [e for e in sub if e[0] in keep]
            if j == 0 and _is_routine(s):
                edits.append(('add_arg', (j,), None))
    return [(k, tuple(t), a) for k, t, a in edits]


def apply_edit(unit, edit):
    """Apply one edit to `unit` (or to the sub-unit it addresses)."""
    from loki.ir import Transformer, SubstituteExpressions, FindVariables
    lk = LK()
    ir, sym, BasicType, SymbolAttributes = lk['ir'], lk['sym'], lk['BasicType'], lk['SymbolAttributes']
    kind, target, arg = edit[0], tuple(edit[1]), edit[2]
    u = resolve(unit, target)
    if kind == 'rename_unit':
        u.name = u.name + '_rn'
    elif kind == 'retype_var':
        # all symbols of one declaration statement share their type: retype the whole statement
        decl = next((d for d in u.declarations if any(s.name.lower() == arg.lower() for s in d.symbols)), None)
        for name in ([s.name for s in decl.symbols] if decl is not None else [arg]):
            old = u.symbol_attrs[name]
            new_dtype = BasicType.LOGICAL if old.dtype != BasicType.LOGICAL else BasicType.INTEGER
            u.symbol_attrs[name] = old.clone(dtype=new_dtype, kind=None, initial=None)
    elif kind == 'append_stmt':
        v = u.variable_map[arg]
        lhs = v.clone(dimensions=None)
        u.body.append(ir.Assignment(lhs=lhs, rhs=sym.Sum((lhs, sym.IntLiteral(1)))))
    elif kind == 'append_decl':
        v = sym.Variable(name='zz_added', type=SymbolAttributes(BasicType.REAL), scope=u)
        u.spec.append(ir.VariableDeclaration(symbols=(v,)))
    elif kind == 'inplace_stmt':
        a = _first_assignment(u)
        if a is None:
            raise LookupError('no assignment to edit')
        a._update(rhs=sym.Sum((a.rhs, sym.IntLiteral(7))))  # pylint: disable=protected-access
    elif kind in ('inner_assoc_inplace', 'inner_assoc_transform'):
        from loki.ir import FindNodes
        assoc = innermost_associate(u)
        a = FindNodes(ir.Assignment).visit(assoc.body)[0]
        if kind == 'inner_assoc_inplace':
            a._update(rhs=sym.Sum((a.rhs, sym.IntLiteral(3))))  # pylint: disable=protected-access
        else:
            # node replacement through a Transformer (scoped nodes on the way are updated in place)
            u.body = Transformer({a: a.clone(rhs=sym.Sum((a.rhs, sym.IntLiteral(5))))}).visit(u.body)
    elif kind == 'remove_stmt':
        last = u.body.body[-1]
        u.body = Transformer({last: None}).visit(u.body)
    elif kind == 'remove_stmt_inplace':
        u.body._update(body=u.body.body[:-1])  # pylint: disable=protected-access
    elif kind == 'replace_decl':
        decl = next(d for d in u.declarations if any(s.name.lower() == arg.lower() for s in d.symbols))
        v = sym.Variable(name='zz_repl', type=SymbolAttributes(BasicType.INTEGER), scope=u)
        u.spec = Transformer({decl: ir.VariableDeclaration(symbols=(v,))}).visit(u.spec)
    elif kind == 'rename_var':
        new = arg + '_rv'
        parts = [p for p in (u.spec, u.body) if p is not None]
        vmap = {}
        for p in parts:
            for v in FindVariables(unique=False).visit(p):
                if v.name.lower() == arg.lower():
                    vmap[v] = v.clone(name=new)
        u.spec = SubstituteExpressions(vmap).visit(u.spec)
        u.body = SubstituteExpressions(vmap).visit(u.body)
        if arg.lower() in u._dummies:  # pylint: disable=protected-access
            u._dummies = tuple(new.lower() if d == arg.lower() else d for d in u._dummies)  # pylint: disable=protected-access
    elif kind == 'add_arg':
        v = sym.Variable(name='zz_arg', type=SymbolAttributes(BasicType.INTEGER, intent='in'), scope=u)
        u.arguments = u.arguments + (v,)
    elif kind == 'drop_arg':
        last = u.arguments[-1]
        u.variables = tuple(v for v in u.variables if v.name.lower() != last.name.lower())
    elif kind == 'typedef_retype':
        td = u.typedefs[arg]
        for comp in [s.name for s in td.declarations[0].symbols]:
            old = td.symbol_attrs[comp]
            new_dtype = BasicType.LOGICAL if old.dtype != BasicType.LOGICAL else BasicType.INTEGER
            td.symbol_attrs[comp] = old.clone(dtype=new_dtype, kind=None, initial=None)
    elif kind == 'typedef_append':
        td = u.typedefs[arg]
        v = sym.Variable(name='zz_comp', type=SymbolAttributes(BasicType.INTEGER), scope=td)
        td._update(body=td.body + (ir.VariableDeclaration(symbols=(v,)),))  # pylint: disable=protected-access
    else:
        raise ValueError(f'unknown edit {edit}')


def edit_name(edit):
    tgt = ''.join(f'[{i}]' for i in edit[1])
    return f'{edit[0]}{("@" + tgt) if tgt else ""}'


# ----------------------------------------------------------------------------- explaining `!=`
def explain_neq(a, b, depth=0):
    """Where two objects that should compare equal first differ: a '>'-separated chain of
    `Class.field` steps with all names and indices masked.  None if a == b."""
    lk = LK()
    if depth == 0:
        _set_own(a, b)
    try:
        if a == b:
            return None
    except Exception as e:  # pylint: disable=broad-except
        return f'==raises:{type(e).__name__}'
    if depth > 60:
        return 'deep'
    if type(a) is not type(b):
        return f'class {type(a).__name__} vs {type(b).__name__}'
    cn = type(a).__name__

    def fields(names, va, vb):
        for n, x, y in zip(names, va, vb):
            sub = explain_neq(x, y, depth + 1)
            if sub is not None:
                return f'{cn}.{n}>{sub}'
        return f'{cn}:fieldwise-equal-but-!='

    if isinstance(a, lk['Sourcefile']):
        return fields(['path', 'ir', 'source'], a._canonical, b._canonical)  # pylint: disable=protected-access
    if isinstance(a, lk['ProgramUnit']):
        if hasattr(a, '_dummies'):
            names = ['name', 'dummies', 'prefix', 'bind', 'docstring', 'spec', 'body', 'contains', 'symbol_attrs']
        else:
            names = ['name', 'docstring', 'spec', 'contains', 'symbol_attrs', 'default_access_spec',
                     'public_access_spec', 'private_access_spec']
        return fields(names, a._canonical, b._canonical)  # pylint: disable=protected-access
    if isinstance(a, dict):
        ka, kb = sorted(map(str, a.keys())), sorted(map(str, b.keys()))
        if ka != kb:
            return f'{cn}:keys'
        for k in a:
            sub = explain_neq(a[k], b[k], depth + 1)
            if sub is not None:
                return f'{cn}[*]>{sub}'
        return f'{cn}:itemwise-equal-but-!='
    if isinstance(a, lk['SymbolAttributes']):
        keys = sorted(set(a.__dict__) | set(b.__dict__))
        return fields(keys, [a.__dict__.get(k) for k in keys], [b.__dict__.get(k) for k in keys])
    if isinstance(a, lk['ProcedureType']):
        pa, pb = a.procedure, b.procedure
        la, lb = isinstance(pa, lk['ProgramUnit']), isinstance(pb, lk['ProgramUnit'])
        if la != lb:
            kind = _proc_kind(pa if la else pb)
            return f'{cn}.procedure[{kind}]:{"linked" if la else "unlinked"}-vs-{"linked" if lb else "unlinked"}'
        return fields(['stored_name', 'name', 'procedure', 'is_function', 'is_generic', 'return_type'],
                      [a._name, a.name, pa, a.is_function, a.is_generic, a.return_type],   # pylint: disable=protected-access
                      [b._name, b.name, pb, b.is_function, b.is_generic, b.return_type])   # pylint: disable=protected-access
    if isinstance(a, lk['DerivedType']):
        ta, tb = a.typedef, b.typedef
        la, lb = isinstance(ta, lk['ir'].TypeDef), isinstance(tb, lk['ir'].TypeDef)
        if la != lb:
            return f'{cn}.typedef:{"linked" if la else "unlinked"}-vs-{"linked" if lb else "unlinked"}'
        return fields(['name', 'typedef'], [a.name, ta], [b.name, tb])
    if isinstance(a, lk['Node']):
        names = [k for k in a.__dataclass_fields__ if k not in ('source', 'parent')]
        if isinstance(a, lk['Scope']) and 'symbol_attrs' not in names:
            names.append('symbol_attrs')
        return fields(names, [getattr(a, k, None) for k in names], [getattr(b, k, None) for k in names])
    if isinstance(a, (tuple, list)):
        if len(a) != len(b):
            return f'{cn}:length'
        for x, y in zip(a, b):
            sub = explain_neq(x, y, depth + 1)
            if sub is not None:
                return f'[*]>{sub}'
        return f'{cn}:itemwise-equal-but-!='
    if hasattr(a, '__getinitargs__'):
        try:
            ia, ib = a.__getinitargs__(), b.__getinitargs__()
            names = getattr(a, 'init_arg_names', None) or [str(i) for i in range(len(ia))]
            for n, x, y in zip(names, ia, ib):
                sub = explain_neq(x, y, depth + 1)
                if sub is not None:
                    return f'<{cn}>.{n}>{sub}'
        except Exception:  # pylint: disable=broad-except
            pass
        return f'<{cn}>'
    return f'{cn}:value'


def strip_to_unit(chain):
    """Drop the part of an explain_neq chain that only says where the offending program unit sits."""
    parts = chain.split('>')
    last = max((i for i, p in enumerate(parts) if p.split('.')[0] in ('Subroutine', 'Function', 'Module')), default=0)
    return '>'.join(parts[last:])


def mask_message(msg):
    """Exception text with quoted names and numbers masked (signatures must not depend on spellings)."""
    import re
    msg = re.sub(r'"[^"]*"', '"*"', str(msg))
    msg = re.sub(r"'[A-Za-z_][A-Za-z0-9_%]*'", "'*'", msg)
    msg = re.sub(r'0x[0-9a-f]+', '0x*', msg)
    msg = re.sub(r'\b\d+\b', 'N', msg)
    return msg.split('\n')[0][:160]


# ----------------------------------------------------------------------------- source-line shrinker
def shrink_source(source, still_fails, budget=120):
    """Greedy line deletion: drop single lines, then matching begin/end pairs, while
    still_fails(text) holds (still_fails must return False for text that no longer parses)."""
    lines = source.splitlines()
    n = 0
    progress = True
    while progress and n < budget:
        progress = False
        for i in range(len(lines) - 1, -1, -1):
            if not lines[i].strip():
                cand = lines[:i] + lines[i + 1:]
            else:
                cand = lines[:i] + lines[i + 1:]
            n += 1
            if n > budget:
                break
            if still_fails('\n'.join(cand) + '\n'):
                lines = cand
                progress = True
        # paired deletion: a block opener and its closer at the same indentation
        for i in range(len(lines)):
            ind = len(lines[i]) - len(lines[i].lstrip())
            head = lines[i].strip().lower()
            if not head or head.startswith('end'):
                continue
            for j in range(i + 1, len(lines)):
                if lines[j].strip().lower().startswith('end') and len(lines[j]) - len(lines[j].lstrip()) == ind:
                    for cand in (lines[:i] + lines[j + 1:], lines[:i] + lines[i + 1:j] + lines[j + 1:]):
                        n += 1
                        if n <= budget and still_fails('\n'.join(cand) + '\n'):
                            lines = cand
                            progress = True
                            break
                    break
            if progress:
                break
    return '\n'.join(lines) + '\n'
